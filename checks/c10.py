"""C10 - decoding arbitrary or truncated input fails only in documented ways (engine F).  DESIGN.md section 4, C10.

For every public decode entry point (checks/c10_entries.py: everything unit.decoders() of the unit registry lists, plus
get_apid_from_raw_space_packet, PusTm.service_from_bytes, AbstractPduBase.header_len_from_raw, FileDirectivePduBase.unpack,
PduFactory.pdu_type / is_file_directive / pdu_directive_type / from_raw_to_holder, determine_header_type,
TransferFrameDataField.unpack in every calling convention, TransferFrame.unpack under every managed-parameter set) and
every malformed octet string of the fault families below, the call must return or raise a documented exception class;
any other exception class, or a call that does not return within its budget, is a violation.  Strict prefixes of valid
self-delimiting units must be refused.

Signatures: C10.escape/<defect site>/<exception class> (the site is the innermost library function on the traceback, so a
defect reached through PduFactory, a holder or a containing PDU is reported once; the entry point called is in the
case), C10.prefix/<entry point>/accepted[/unit=<kind>], C10.hang/<entry point>/no-return-within-2s.

Fault families (each enumerated completely, simplest first):
  small     every octet string of length <= 2 (thorough: <= 3 for the entry points whose first octets steer control flow)
  field     every octet string of length <= 2 as the payload of a length-consistent, CRC-valid unit: the data field of every PDU kind
            (behind the directive code) under several header configurations, the packet data field of a PUS TC / TM / service 1 / 17
            packet, the source data of a service-1 report of every subservice and field width, the value of a TLV of every type,
            an LV, the data field of a USLP frame - "the length fields are honest, the content is too short"
  valid     the unfaulted reference-encoded unit (control)
  truncate  every strict prefix of every corpus unit                                          [prefix clause + escape clause]
  subst     every one of the 255 other octet values at every position of the first 40 octets of every corpus unit
  subst+crc the same with the trailing CRC-16 recomputed (units that end in a CRC), so that the fault gets past the CRC check
  shorten   the unit cut to every shorter length L with its length field rewritten to say L (and the CRC recomputed):
            the length-consistent diagonal of substitute-then-truncate
  subst>cut thorough: every substitution in the first 24 octets followed by every truncation behind it (deviation bound 2)
            on a reduced corpus (3 units of <= 64 octets per entry point)
"""

from __future__ import annotations

import resource
import signal

from mc import domains as D
from mc.rec import Hang, Rec, Watchdog, unhex

from checks import c10_entries as T

PROPERTY = "C10"
LEVEL = "fault_enumeration"
EXHAUSTIVE = True
RULE = (
    "case = (entry point, decoder configuration, octet string). Octet strings: all strings of length <= 2 (<= 3 thorough, steering entry points) "
    "per entry point and configuration, bare and as the payload of a length-consistent CRC-valid unit (PDU data field, packet data field, service-1 "
    "source data, TLV / LV value, USLP frame data field); for every reference-encoded corpus unit of the entry point: the unit itself, every strict prefix, every "
    "single-octet substitution (255 values) at every position < 40, the same with the trailing CRC recomputed for CRC-protected units, every "
    "length-consistent shortening, and (thorough) every substitution at a position < 24 followed by every truncation behind it on 3 units per entry "
    "point. A case is counted distinct/non-trivial when the same (entry point, configuration, octet string) was not produced earlier in its shard "
    "and the string is longer than 2 octets or belongs to the small-string enumeration (shards partition entry point x configuration x "
    "first-octet range / entry point x corpus-unit range, so they are disjoint by construction)."
)
BOUNDS = {
    "quick": "strings <= 2 octets (bare and as payload, 2 header configurations per PDU kind); prefixes: all; substitution: 255 values x first 40 octets (12 for the managed-parameter / TFDF calling-convention products); shorten: all; deviation bound 1",
    "thorough": "strings <= 3 octets for steering entry points, <= 2 otherwise (payloads: 8 header configurations per PDU kind, 16 width pairs per service-1 subservice); larger corpora; substitution 255 x 40 everywhere; substitute-then-truncate (deviation bound 2) on 3 units per entry point",
}
ASSUMPTIONS = [
    "the valid corpus units are reference-encoded (ref/*.py, bound to the repository's byte vectors by the selftests); the oracle is relative: an exception class, or acceptance of a strict prefix",
    "documented classes: ValueError and subclasses, InvalidTcCrc16, InvalidTmCrc16, InvalidCrc, UnsupportedCfdpVersion, TlvTypeMissmatch, InvalidVerifParams, the seven Uslp* classes",
    "prefix clause: units with a length field or a fixed size (unit.self_delimiting, and CFDP PDUs whose header carries the data field length), decoded with the configuration that matches the unit; truncated USLP frames, the TFDF, the TM secondary header and FailureNotice are not self-delimiting",
    "a call is taken to hang when, twice in a row, it does not return within 2 s of CPU time (60 s of wall time) or allocates more than 1 GiB (calls take microseconds); batches of 4000 calls share one 10 s timer and are re-run call by call when it expires",
    "ReservedCfdpMessage.get_* parsers are out of scope (DESIGN.md C10; C18 states what they owe)",
]

CALL_BUDGET_S = 2.0  # CPU seconds of the worker (wall-clock backstop at 30 x)
BATCH_BUDGET_S = 10.0  # CPU seconds; 4000 calls take 0.05 - 0.3 s; an expired batch is only re-run call by call, never reported
BATCH = 4000
MEMORY_HEADROOM = 1 << 30
SUBST_REGION = 40
ST_REGION, ST_UNITS, ST_MAXLEN = 24, 3, 64

_DOC = None


def documented():
    global _DOC
    if _DOC is None:
        from spacepackets.cfdp.defs import UnsupportedCfdpVersion
        from spacepackets.cfdp.exceptions import InvalidCrc, TlvTypeMissmatch
        from spacepackets.ecss.pus_1_verification import InvalidVerifParams
        from spacepackets.ecss.tc import InvalidTcCrc16
        from spacepackets.ecss.tm import InvalidTmCrc16
        import spacepackets.uslp.defs as ud

        _DOC = (ValueError, InvalidTcCrc16, InvalidTmCrc16, InvalidCrc, UnsupportedCfdpVersion, TlvTypeMissmatch, InvalidVerifParams,
                ud.UslpInvalidFrameHeader, ud.UslpInvalidRawPacketOrFrameLen, ud.UslpInvalidConstructionRules, ud.UslpFhpVhopFieldMissing,
                ud.UslpTruncatedFrameNotAllowed, ud.UslpVersionMissmatch, ud.UslpTypeMissmatch)
    return _DOC


class Dog(Watchdog):
    """mc.rec.Watchdog measuring the CPU time of the worker (ITIMER_PROF) instead of wall time, so that a loaded machine
    cannot make a call look like a hang and a real loop is caught however little CPU the worker gets; the wall-clock
    timer of the base class stays armed as a backstop at 30 x the budget (a call that blocks).  The timers repeat (a Hang
    swallowed by an `except Exception` inside a loop is raised again) and an address-space ceiling is in force while
    armed (a loop that allocates must not take the machine down: MemoryError inside a call counts as an expired budget)."""

    def __enter__(self):
        self._lim = resource.getrlimit(resource.RLIMIT_AS)
        try:
            with open("/proc/self/statm") as fh:
                vsz = int(fh.read().split()[0]) * resource.getpagesize()
            soft = vsz + MEMORY_HEADROOM
            if self._lim[1] != resource.RLIM_INFINITY:
                soft = min(soft, self._lim[1])
            resource.setrlimit(resource.RLIMIT_AS, (soft, self._lim[1]))
        except (OSError, ValueError):
            pass
        self._old = signal.signal(signal.SIGALRM, self._handler)
        self._oldp = signal.signal(signal.SIGPROF, self._handler)
        signal.setitimer(signal.ITIMER_PROF, self.seconds, 0.25)
        signal.setitimer(signal.ITIMER_REAL, 30 * self.seconds, 1.0)
        return self

    def __exit__(self, *exc):
        signal.setitimer(signal.ITIMER_PROF, 0)
        signal.setitimer(signal.ITIMER_REAL, 0)
        signal.signal(signal.SIGPROF, self._oldp)
        signal.signal(signal.SIGALRM, self._old)
        try:
            resource.setrlimit(resource.RLIMIT_AS, self._lim)
        except (OSError, ValueError):
            pass
        return False


# ------------------------------------------------------------------------------------------------------- shards
def small_maxlen(e, tier):
    return 3 if (tier == "thorough" and e.steer) else 2


def shards(tier):
    items = []
    for key, e in T.entries().items():
        if e.do_small:
            ml = small_maxlen(e, tier)
            cfgs = e.small_cfgs(tier)
            if ml == 3:
                cfgs = e.steer_cfgs(tier)
                rest = [i for i, c in enumerate(e.small_cfgs(tier)) if c not in cfgs]
                for ci in rest:
                    items.append({"fam": "small", "entry": key, "cfgs": [ci], "steer": False, "maxlen": 2, "lo": 0, "hi": 256, "tier": tier})
                for ci in range(len(cfgs)):
                    for lo in range(0, 256, 8):
                        items.append({"fam": "small", "entry": key, "cfgs": [ci], "steer": True, "maxlen": 3, "lo": lo, "hi": lo + 8, "tier": tier})
            else:
                for cis in D.chunks(list(range(len(cfgs))), max(1, (len(cfgs) + 2) // 3)):
                    items.append({"fam": "small", "entry": key, "cfgs": cis, "steer": False, "maxlen": 2, "lo": 0, "hi": 256, "tier": tier})
        corpus = e.corpus(tier)
        if corpus:
            cost = [unit_cost(e, r, raw, tier) + (st_cost(raw) if st_selected(e, i, raw, tier) else 0) for i, (r, raw) in enumerate(corpus)]
            per = 120_000 if tier == "quick" else 400_000
            lo, acc = 0, 0
            for i, c in enumerate(cost):
                acc += c
                if acc >= per or i == len(cost) - 1:
                    items.append({"fam": "mut", "entry": key, "lo": lo, "hi": i + 1, "tier": tier})
                    lo, acc = i + 1, 0
    return items


def subst_region(e, n, tier):
    return min(n, 12 if (e.heavy and tier == "quick") else SUBST_REGION)


def st_selected(e, idx, raw, tier):
    return tier == "thorough" and idx < st_limit(e) and len(raw) <= ST_MAXLEN


def st_limit(e):
    return ST_UNITS * (6 if e.heavy else 1)


def unit_cost(e, recipe, raw, tier):
    n = len(raw)
    c = 1 + n + 255 * subst_region(e, n, tier) * (2 if e.crc(recipe) else 1) + len(T.shorten_range(e.family, raw))
    return c


def st_cost(raw):
    n = len(raw)
    return sum(255 * (n - pos - 1) for pos in range(min(n, ST_REGION)))


# ---------------------------------------------------------------------------------------------------- execution
def site_of(exc):
    """qualified name of the innermost library function on the traceback (the defect site, coarse)"""
    tb, best, last = exc.__traceback__, None, None
    while tb is not None:
        code = tb.tb_frame.f_code
        last = code
        if "spacepackets" in code.co_filename.replace("\\", "/").split("/"):
            best = code
        tb = tb.tb_next
    code = best or last
    return getattr(code, "co_qualname", code.co_name) if code is not None else "?"


def exc_name(cls):
    return cls.__name__ if cls.__module__ == "builtins" else f"{cls.__module__}.{cls.__name__}"


def accepted(result):
    """did the call hand back a decoded object?  (PduFactory.from_raw answers None for an unknown directive code)"""
    if type(result).__name__ == "PduHolder":
        result = result.pdu
    return result is not None


def attempt(f, b, doc):
    """-> (exception class or None, undocumented exception or None, result)"""
    try:
        r = f(b)
    except doc as e:
        return type(e), None, None
    except Hang:
        raise
    except MemoryError:
        raise Hang()
    except Exception as e:  # noqa: BLE001 - the whole point
        return type(e), e, None
    return None, None, r


def fault_dict(fd):
    keys = {"small": (), "field": ("payload",), "valid": (), "truncate": ("cut",), "subst": ("pos", "value"), "subst+crc": ("pos", "value"), "shorten": ("len",),
            "subst>cut": ("pos", "value", "cut")}[fd[0]]
    out = {"family": fd[0]}
    out.update(zip(keys, fd[1:]))
    return out


def fault_tuple(fault):
    """inverse of fault_dict (replay)"""
    return (fault["family"],) + tuple(fault[k] for k in ("payload", "pos", "value", "cut", "len") if k in fault)


def make_case(e, recipe, buf, fd, idx=None):
    c = {"entry": e.key, "recipe": recipe, "buf": bytes(buf), "fault": fault_dict(fd)}
    if idx is not None:
        c["unit"] = idx
    return c


def judge(rec, e, recipe, buf, fd, cls, exc, result, idx=None):
    """the oracle for one executed call; returns the outcome label"""
    if exc is not None:
        # one signature per defect site: the innermost library function on the traceback, whatever public entry point the
        # octets came in through (the entry point is in the case and in `observed`)
        rec.violation(f"C10.escape/{site_of(exc)}/{exc_name(cls)}", make_case(e, recipe, buf, fd, idx), f"{e.name}: {repr(exc)[:300]}",
                      "returns, or raises a documented class (ValueError family, CRC errors, UnsupportedCfdpVersion, TlvTypeMissmatch, InvalidVerifParams, Uslp*)",
                      repro=T.repro_source(e, recipe, buf))
        rec.count(f"escape_route[{site_of(exc)} <- {e.name}]")
        return "UNDOCUMENTED:" + exc_name(cls)
    if cls is not None:
        if fd[0] == "truncate" and e.prefix:
            rec.count("prefixes_refused")
        elif fd[0] == "valid":
            rec.count("valid_units_refused")  # not judged here (C02..C08, C17 own the valid case); shows how much of the corpus decodes
        return cls.__name__
    if fd[0] == "truncate" and e.prefix:
        if accepted(result):
            unit = f"/unit={e.unit.name}" if (e.shared and e.unit is not None) else ""
            rec.violation(f"C10.prefix/{e.name}/accepted{unit}", make_case(e, recipe, buf, fd, idx), "decoded " + type(result).__name__,
                          "a strict prefix of a self-delimiting unit is refused with a documented error", repro=T.repro_source(e, recipe, buf))
            return "PREFIX-ACCEPTED"
        rec.count("prefixes_refused")
        return "returned-none"
    return "returned"


def hang_violation(rec, e, recipe, buf, fd, idx=None):
    rec.violation(f"C10.hang/{e.name}/no-return-within-{CALL_BUDGET_S:g}s", make_case(e, recipe, buf, fd, idx),
                  f"call interrupted by the watchdog twice ({CALL_BUDGET_S:g} s of CPU time or {MEMORY_HEADROOM >> 20} MiB of new memory)",
                  "returns or raises", repro=T.repro_source(e, recipe, buf))


def single(rec, e, recipe, f, buf, fd, idx=None):
    """one call under its own watchdog (bisection end point, and replay)"""
    doc = documented()
    for round_ in (0, 1):
        try:
            with Dog(CALL_BUDGET_S):
                cls, exc, result = attempt(f, buf, doc)
            return judge(rec, e, recipe, buf, fd, cls, exc, result, idx)
        except Hang:
            if round_ == 1:
                hang_violation(rec, e, recipe, buf, fd, idx)
                return "HANG"


def run_batch(rec, e, recipe, f, tasks, tally, idx=None):
    """tasks: [(buf, fault descriptor)].  The batch runs under one watchdog; if it expires the batch is re-run call by
    call, each under its own 2 s budget (so only a single call that does not return is ever reported)."""
    doc = documented()
    local = []
    try:
        with Dog(BATCH_BUDGET_S):
            for buf, fd in tasks:
                cls, exc, result = attempt(f, buf, doc)
                if exc is None and cls is not None and fd[0] != "valid" and not (fd[0] == "truncate" and e.prefix):
                    local.append(cls.__name__)  # the common case: documented refusal
                else:
                    local.append((buf, fd, cls, exc, result))
    except Hang:
        rec.count("batches_bisected")
        for buf, fd in tasks:
            tally[single(rec, e, recipe, f, buf, fd, idx)] += 1
        return
    for x in local:
        if type(x) is str:
            tally[x] += 1
        else:
            tally[judge(rec, e, recipe, x[0], x[1], x[2], x[3], x[4], idx)] += 1


def small_strings(maxlen, lo, hi):
    """every octet string of length <= maxlen whose first octet is in [lo, hi) (the empty string with lo == 0)"""
    if lo == 0:
        yield b""
    r = range(256)
    for a in range(lo, hi):
        yield bytes((a,))
        if maxlen >= 2:
            for b in r:
                yield bytes((a, b))
        if maxlen >= 3:
            for b in r:
                for c in r:
                    yield bytes((a, b, c))


def unit_tasks(e, recipe, raw, tier, idx):
    """the fault families of one corpus unit, simplest first"""
    n = len(raw)
    yield raw, ("valid",)
    for cut in range(n):
        yield raw[:cut], ("truncate", cut)
    region = subst_region(e, n, tier)
    for pos in range(region):
        o = raw[pos]
        head, tail = raw[:pos], raw[pos + 1:]
        for v in range(256):
            if v != o:
                yield head + bytes((v,)) + tail, ("subst", pos, v)
    if e.crc(recipe):
        for pos in range(min(region, n - 2)):
            o = raw[pos]
            head, tail = raw[:pos], raw[pos + 1:]
            for v in range(256):
                if v != o:
                    yield T.recrc(head + bytes((v,)) + tail), ("subst+crc", pos, v)
    crc = e.crc(recipe)
    for L in T.shorten_range(e.family, raw):
        yield T.shorten(e.family, raw, L, crc), ("shorten", L)
    if st_selected(e, idx, raw, tier):
        for pos in range(min(n, ST_REGION)):
            o = raw[pos]
            head, tail = raw[:pos], raw[pos + 1:]
            for v in range(256):
                if v != o:
                    s = head + bytes((v,)) + tail
                    for cut in range(pos + 1, n):
                        yield s[:cut], ("subst>cut", pos, v, cut)


def batches(gen, size):
    cur = []
    for x in gen:
        cur.append(x)
        if len(cur) >= size:
            yield cur
            cur = []
    if cur:
        yield cur


def flush(rec, e, tally, fam_counts):
    for k, v in tally.items():
        rec.outcome(f"{e.name}:{k}")
    for k, v in fam_counts.items():
        rec.count("calls_" + k, v)


def run_shard(item):
    import collections

    rec = Rec(PROPERTY, item)
    e = T.entries()[item["entry"]]
    tier = item["tier"]
    tally = collections.Counter()
    fams = collections.Counter()
    if item["fam"] == "small":
        cfgs = e.steer_cfgs(tier) if item.get("steer") else e.small_cfgs(tier)
        fd = ("small",)
        fam = "field" if e.wrap else "small"
        for ci in item["cfgs"]:
            recipe = cfgs[ci]
            f = e.bind(recipe)
            n = 0
            strings = small_strings(item["maxlen"], item["lo"], item["hi"])
            gen = ((e.wrap(recipe, b), ("field", b)) for b in strings) if e.wrap else ((b, fd) for b in strings)
            for chunk in batches(gen, BATCH):
                run_batch(rec, e, recipe, f, chunk, tally)
                n += len(chunk)
            rec.evaluations += n
            rec.nontrivial += n  # distinct by construction: (entry, configuration, string), disjoint first-octet ranges
            rec.ops += n
            fams[fam] += n
            rec.count(f"entry[{e.name}]", n)
            rec.sample({"entry": e.name, "family": fam, "configuration": recipe, "strings": f"all of length <= {item['maxlen']} with first octet in [{item['lo']},{item['hi']})",
                        "outcomes": dict(tally)}, limit=1)
    else:
        corpus = e.corpus(tier)
        seen = {}
        for idx in range(item["lo"], item["hi"]):
            recipe, raw = corpus[idx]
            f = e.bind(recipe)
            ck = repr(e.cfgkey(recipe)) if e.cfgkey else ""
            s = seen.setdefault(ck, set())
            n = nt = 0
            gen = unit_tasks(e, recipe, raw, tier, idx)
            if e.wrap:  # the corpus unit is a payload: every faulted payload travels inside a consistent unit
                gen = ((e.wrap(recipe, b), fd) for b, fd in gen)
            for chunk in batches(gen, BATCH):
                run_batch(rec, e, recipe, f, chunk, tally, idx)
                for buf, fd in chunk:
                    fams[fd[0]] += 1
                    if len(buf) > 2 and buf not in s:
                        s.add(buf)
                        nt += 1
                n += len(chunk)
            rec.evaluations += n
            rec.nontrivial += nt
            rec.ops += n
            rec.count(f"entry[{e.name}]", n)
            rec.count("corpus_units")
            if e.unit is not None:
                rec.count(f"unit[{e.unit.name}]", n)
            if idx == item["lo"]:
                rec.sample({"entry": e.name, "family": "truncate/subst/shorten", "valid_unit": raw[:64], "unit_len": len(raw), "recipe": recipe,
                            "prefix_clause": e.prefix, "expected": "documented refusal or a decoded object; refusal for every strict prefix" if e.prefix else "documented refusal or a return"}, limit=1)
    flush(rec, e, tally, fams)
    return rec.result()


def replay(case):
    rec = Rec(PROPERTY, "replay")
    e = T.entries()[case["entry"]]
    recipe = case.get("recipe")
    buf = unhex(case["buf"])
    fd = fault_tuple(case["fault"])
    rec.case(True, ops=1)
    single(rec, e, recipe, e.bind(recipe), buf, fd, case.get("unit"))
    return rec.result()


def finalize(tier, agg):
    c = agg["counters"]
    E = T.entries()
    names = sorted({e.name for e in E.values()})
    pairs = sorted(agg["outcomes"])
    return {
        "entry_points": len(names),
        "entry_point_calling_conventions": len(E),
        "calls_per_entry_point": {n: c.get(f"entry[{n}]", 0) for n in names},
        "calls_per_fault_family": {k[6:]: v for k, v in sorted(c.items()) if k.startswith("calls_")},
        "corpus_units_faulted": c.get("corpus_units", 0),
        "prefixes_refused": c.get("prefixes_refused", 0),
        "valid_corpus_units_refused_by_their_decoder": c.get("valid_units_refused", 0),
        "distinct_entry_point_outcome_pairs": len(pairs),
        "entry_point_outcome_pairs": pairs[:400],
        "watchdog_batches_bisected": c.get("batches_bisected", 0),
        "escape_routes": {k[13:-1]: v for k, v in sorted(c.items()) if k.startswith("escape_route[")},
        "bounds_completed": BOUNDS[tier],
    }
