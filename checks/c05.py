"""C05 - CFDP fixed PDU header (engine V).  DESIGN.md section 4, C05.

Encoder side: PduHeader(...).pack() == 001 t d m c l | len16 | s www f www | src | seq | dst (ref/cfdp.py), header_len,
packet_len, PduConfig.header_len(), header_len_from_raw; decoder side: PduHeader.unpack returns every value and width;
refusals: ID widths that differ, data field length > 65535, version != 1, width code not in {1,2,4,8}.

The property speaks about the header's CURRENT values ("for every ... value the packed header is ...; its length is ..."),
however the object got them.  Two further engines therefore drive the same reference encoder:

* histories (explicit-state exploration, DESIGN.md 2.3): every sequence of <= depth actions over the public mutators of
  PduHeader interleaved with its observers, from a constructed and from a decoded start state; a plain dict is the model,
  ref/cfdp.header(model) the oracle at every observer action and at the end of every history (a length / header image that
  is cached and invalidated by some setters only, or only goes stale when it was read before the setter, shows here);
* independence (mc.alias.Keeper): every result the library hands out (constructed header, decoded header, the pack() result)
  is a value - it is re-observed after the library has been used on other headers (a shared template configuration, a
  flyweight decode cache, a shared output buffer, a decoded header that aliases the caller's buffer show here)."""

from __future__ import annotations

import itertools

from mc import domains as D
from mc.alias import Keeper
from mc.rec import Rec
from ref import cfdp as R
from units import cfdp_pdu as U

PROPERTY = "C05"
LEVEL = "model_checking"  # bounded-exhaustive enumeration of executions against a reference model (DESIGN.md 1, 2.1)
EXHAUSTIVE = True
RULE = (
    "case = one header (7 flag bits, ID width, sequence width, data field length, source / sequence / destination "
    "values). Enumerated completely: (a) all 128 flag combinations x 16 width combinations x edge(16) data field lengths "
    "x 4 ID backgrounds; (b) the data field length over all 65536 values in K backgrounds of the other fields; (c) each "
    "of source ID, sequence number, destination ID swept separately - every value for widths 1 and 2, walk(8w) plus "
    "every value of every single octet for widths 4 and 8 - in K backgrounds; (d) decoder: every (octet 0, octet 3) pair "
    "(65536: every version, flag bit and width code) in front of a long-enough tail; (e) refusals: the 12 ordered pairs of "
    "different ID widths, data field lengths 65536..65535+N and 2^k through constructor and setter. A case counts as "
    "distinct non-trivial when no other sweep produces the same header (measured with a per-shard set; across shards the "
    "only overlaps are sweep values equal to a background value, which job (a) already produced - those are executed but "
    "not counted as distinct). In (a)-(c) the decoder is handed bytes with a tail, bytes ending with the header and a "
    "bytearray that is overwritten after the call; in (b) and (c) every swept value is also assigned through the public setter "
    "(pdu_data_field_len=, set_entity_ids, transaction_seq_num=) to one long-lived header per shard whose octets and lengths "
    "must follow. (f) histories: every sequence of 0..D actions over a 43-letter alphabet - "
    "5 observers (header_len, packet_len, pack()+header_len_from_raw, pdu_conf.header_len(), all field getters), the "
    "header's mutators (set_entity_ids with each of the 4 widths, transaction_seq_num= with each width, pdu_data_field_len= "
    "with 2 values, each of the 7 flag attributes flipped, the refused arguments: 4 mixed-width ID pairs and length 65536), "
    "and writes through objects the header hands out (pdu_conf IDs / sequence number with each width, 5 pdu_conf flags, "
    ".value of the three field objects) - from a constructed and from a decoded header in 4 backgrounds; each history is "
    "executed on a fresh object, every observer action and a full observation at the end are compared with the reference "
    "encoding of the model's current values (a state = a node of the history tree: it is distinct by construction and "
    "differs from its siblings in the values held and in which observers have been read); every pack() result of a history "
    "must still be what it was at the end. (g) independence: for each of the 2048 flag x width combinations A and each of "
    "its 19 neighbours B (identical, one field changed: 7 flags, 3+3 widths, length, 3 ID values; all fields changed): build / "
    "pack / decode A and hold the 5 results, build / pack / decode B and drive every mutator of B's objects, re-observe A's "
    "results; in (a)-(d) the results of every case are re-observed after the next case of the enumeration."
)
BOUNDS = {"quick": "K=2 (width-2 ID sweeps K=1), N=4096, history depth D=3 (8 start states x 81 400 histories)",
          "thorough": "K=4 (width-2 ID sweeps K=2), N=65536, history depth D=4 (8 start states x 3 500 201 histories)"}
ASSUMPTIONS = [
    "reference encoder ref/cfdp.py transcribes CCSDS 727.0-B-5 5.1 (bound to the repository's expected byte vectors by selftest/st_ref_cfdp.py)",
    "two arbitrary non-background ID values in two different fields at once are only covered by the backgrounds",
    "the property is read as a statement about the header's current values however they were assigned (constructor, decoder, "
    "public setters in any order, reads in between); histories longer than D actions are not explored",
    "a refused setter call (mixed ID widths, length > 65535) leaves the header's values as they were",
    "a write through header.pdu_conf or a handed-out field object may or may not reach the header (design decision outside "
    "the property): afterwards each reported field must be the old or the new value and lengths / octets must agree with the "
    "reported fields",
    "the independence oracle re-observes a result after the NEXT case(s) only (and after each of the 19 neighbour headers in "
    "job g); a leak that needs more intervening calls is not seen",
]

FLAGS = list(itertools.product((0, 1), repeat=7))  # ptype, dir, mode, crc, large, segctrl, segmeta
WIDTHS = (1, 2, 4, 8)
TAIL = bytes(range(0xC1, 0xC1 + 27))
unit = U.UNITS["PduHeader"]


def _k(tier):
    return 2 if tier == "quick" else 4


def _n(tier):
    return 4096 if tier == "quick" else 65536


def _depth(tier):
    return 3 if tier == "quick" else 4


HISTORY_STARTS = ("ctor", "unpack", "default")  # default: the header of a PduConfig.default() (the alternate constructor of the configuration)


def recipe_of(flags, idw, seqw, dlen, src=None, seq=None, dst=None):
    t, d, m, c, l, sc, sm = flags
    cfg = {"crc": c, "large": l, "idw": idw, "seqw": seqw, "mode": m, "segctrl": sc, "ptype": t, "dir": d, "segmeta": sm}
    for k, v in (("src", src), ("seq", seq), ("dst", dst)):
        if v is not None:
            cfg[k] = v
    return {"cfg": cfg, "params": {"dlen": dlen}}


def id_background(j, width):
    """j-th background value of an ID field of the given width (0 = the asymmetric default scheme -> None)"""
    bits = 8 * width
    return [None, (1 << bits) - 1, 0, D.alt(bits, False)][j % 4]


def background(j):
    """j-th background for 'the other fields': (flags, idw, seqw, dlen, src, seq, dst)"""
    flags = [(0,) * 7, (1,) * 7, (0, 1, 0, 1, 0, 1, 0), (1, 0, 1, 0, 1, 0, 1)][j % 4]
    idw, seqw = [(1, 1), (8, 8), (2, 4), (4, 2)][j % 4]
    dlen = [0, 0xFFFF, 0x5555, 0xAAAA][j % 4]
    return flags, idw, seqw, dlen, id_background(j, idw), id_background(j, seqw), id_background(j + 1, idw) if j else None


_SINK = None  # list collecting the objects the library handed out during one evaluate_header (independence oracle)


def obs_header(h):
    """everything a header object says about itself, by value (copies)"""
    return (U.header_obs(h), int(h.pdu_data_field_len), bytes(h.pack()), int(h.header_len), int(h.packet_len))


def evaluate_header(u, recipe, via="class", encode_side=True):
    r = U.norm(recipe)
    cfg, p = r["cfg"], r["params"]
    ref = R.encode_header(cfg, p)
    hlen = 4 + 2 * cfg["idw"] + cfg["seqw"]
    assert len(ref) == hlen
    sink = _SINK if _SINK is not None else []
    try:
        conf = U.pdu_config(cfg, cfg.get("dir", 0))
        h = U.L.PduHeader(U.L.PduType(cfg.get("ptype", 0)), U.L.SegmentMetadataFlag(cfg.get("segmeta", 0)), p["dlen"], conf)
    except Exception as e:
        return U.Failure("encode", "PduHeader.__init__", "exception", repr(e), ref)
    try:
        packed = h.pack()
        raw = bytes(packed)
    except Exception as e:
        return U.Failure("encode", "PduHeader.pack", "exception", repr(e), ref)
    if raw != ref:
        return U.Failure("encode", "PduHeader.pack", "octets", raw, ref)
    lens = (int(h.header_len), int(h.packet_len), int(conf.header_len()), int(U.L.PduHeader.header_len_from_raw(ref + TAIL)))
    if lens != (hlen, hlen + p["dlen"], hlen, hlen):
        return U.Failure("length", "PduHeader.header_len", "header_len/packet_len/PduConfig.header_len/header_len_from_raw", lens,
                         (hlen, hlen + p["dlen"], hlen, hlen))
    sink.append(("PduHeader.__init__", h, obs_header))
    sink.append(("PduHeader.pack", packed, bytes))
    exp = u._exp(cfg, p)
    # the decoder is handed bytes with a tail, bytes that end with the header, and the bytearray pack() itself returns (the
    # round trip unpack(pack()) of the property); the caller's bytearray is overwritten after the call: what was decoded
    # are values, not a view of the caller's buffer
    for what, data in (("", ref + TAIL), ("-exact-buffer", ref), ("-bytearray", bytearray(ref + TAIL[:2]))):
        try:
            d = U.L.PduHeader.unpack(data)
        except Exception as e:
            return U.Failure("decode", "PduHeader.unpack", "refused" + what, repr(e), exp)
        pre = ""
        if what == "-bytearray":
            pre = "bytearray-input-overwritten-after-the-call/"
            for i in range(len(data)):
                data[i] ^= 0xFF
        obs = u.observe(d)
        if obs != exp:
            names = U.HEADER_FIELDS + ["data_field_len"]
            diff = [names[i] for i in range(len(exp)) if obs[i] != exp[i]]
            return U.Failure("decode", "PduHeader.unpack", pre + "fields=" + "+".join(diff), obs, exp)
        lens = (int(d.header_len), int(d.packet_len))
        if lens != (hlen, hlen + p["dlen"]):
            return U.Failure("decode", "PduHeader.unpack", pre + "decoded-length", lens, (hlen, hlen + p["dlen"]))
        try:
            again = bytes(d.pack())
        except Exception as e:
            return U.Failure("decode", "PduHeader.unpack", pre + "repack", repr(e), ref)
        if again != ref:
            return U.Failure("decode", "PduHeader.unpack", pre + "repack", again, ref)
        if what != "-exact-buffer":
            sink.append(("PduHeader.unpack", d, obs_header))
    return None


def setter_path(rec, hs, recipe, how):
    """the same values assigned to ONE long-lived header through its public setters (how: 'dlen' | 'src' | 'seq' | 'dst'):
    the octets, header_len and packet_len must be those of the recipe - a sweep-long history of one setter"""
    cfg, p = recipe["cfg"], recipe["params"]  # recipe_of() fills in every key, nothing to normalise
    ref = R.encode_header(cfg, p)
    src, seq, dst = R.cfg_ids(cfg)
    gen = U.L.ByteFieldGenerator.from_int
    rec.ops += 3
    subject = {"dlen": "pdu_data_field_len", "seq": "transaction_seq_num"}.get(how, "set_entity_ids")
    try:
        if how == "dlen":
            hs.pdu_data_field_len = p["dlen"]
        elif how == "seq":
            hs.transaction_seq_num = gen(cfg["seqw"], seq)
        else:
            hs.set_entity_ids(gen(cfg["idw"], src), gen(cfg["idw"], dst))
        got = (bytes(hs.pack()), int(hs.header_len), int(hs.packet_len))
    except Exception as e:  # noqa: BLE001
        got = repr(e)
    exp = (ref, len(ref), len(ref) + p["dlen"])
    if got != exp:
        rec.violation(f"C05.encode/PduHeader.{subject}/octets-or-lengths-after-setter-on-a-long-lived-header",
                      {"kind": "setter", "how": how, "first": recipe_first(recipe, how), "recipe": recipe}, got, exp)


def recipe_first(recipe, how):
    """the recipe the long-lived header of a setter sweep is constructed from: the swept field at its simplest value"""
    r = {"cfg": dict(recipe["cfg"]), "params": dict(recipe["params"])}
    if how == "dlen":
        r["params"]["dlen"] = 0
    else:
        r["cfg"][how] = 0
    return r


KEEP = 4  # results handed out per header case (constructed header, its pack() result, two decoded headers)


def header_case(rec, seen, recipe, dup=False, keeper=None):
    """dup: the same header is also produced by the 'flags' job (counted as executed, not as distinct).
    keeper: the results of this case are held and re-observed after the next case(s) of the enumeration"""
    global _SINK
    key = (tuple(sorted(recipe["cfg"].items())), recipe["params"]["dlen"])
    fresh = key not in seen and not dup
    seen.add(key)
    rec.case(fresh, ops=15)
    _SINK = [] if keeper is not None else None
    try:
        ok = U.judge(rec, PROPERTY, None, unit, recipe, "class", True, evaluate_header)
        got = _SINK
    finally:
        _SINK = None
    if keeper is not None:
        case = {"kind": "pdu", "unit": "PduHeader", "via": "class", "enc": True, "recipe": recipe}
        keeper.recheck(case)  # the earlier cases' results, after this case's library calls
        if ok:
            for subject, obj, observe in got[:KEEP]:
                keeper.hold(subject, obj, observe, case)
    return ok


def documented():
    return (ValueError, U.L.UnsupportedCfdpVersion)


def check_decode_pair(rec, o0, o3, keeper=None):
    """every fixed part: octet 0 (version, flags) and octet 3 (width codes, flags) in front of a long tail"""
    if keeper is not None:
        try:
            return _check_decode_pair(rec, o0, o3, keeper)
        finally:
            keeper.recheck({"kind": "pair", "o0": o0, "o3": o3})
    return _check_decode_pair(rec, o0, o3, None)


def _check_decode_pair(rec, o0, o3, keeper):
    raw = bytes([o0, 0x12, 0x34, o3]) + TAIL
    rec.case(True, ops=2)
    case = {"kind": "pair", "o0": o0, "o3": o3}
    version, idw, seqw = o0 >> 5, ((o3 >> 4) & 7) + 1, (o3 & 7) + 1
    valid = version == 1 and idw in WIDTHS and seqw in WIDTHS
    why = "version!=1" if version != 1 else "width-code"
    try:
        d = U.L.PduHeader.unpack(raw)
    except documented() as e:
        if valid:
            rec.violation("C05.decode/PduHeader.unpack/refused-valid-fixed-part", case, repr(e), None)
        else:
            rec.outcome(f"refused:{why}:{type(e).__name__}")
        return
    except Exception as e:
        rec.violation(f"C05.{'decode' if valid else 'refuse'}/PduHeader.unpack/undocumented-exception/{type(e).__name__}", case, repr(e),
                      "fields" if valid else "ValueError or UnsupportedCfdpVersion")
        return
    if not valid:
        rec.violation(f"C05.refuse/PduHeader.unpack/accepted/{why}", case, repr(d), "ValueError or UnsupportedCfdpVersion")
        return
    f = R.header_fields(raw)
    src, seq, dst = R.id_fields(raw)
    exp = (f["ptype"], f["dir"], f["mode"], f["crc"], f["large"], f["segctrl"], f["segmeta"], src, idw, seq, seqw, dst, idw, 0x1234)
    obs = unit.observe(d)
    if obs != exp:
        rec.violation("C05.decode/PduHeader.unpack/fields-of-fixed-part", case, obs, exp)
        return
    if (d.header_len, d.packet_len, U.L.PduHeader.header_len_from_raw(raw)) != (4 + 2 * idw + seqw, 4 + 2 * idw + seqw + 0x1234, 4 + 2 * idw + seqw):
        rec.violation("C05.decode/PduHeader.unpack/decoded-length-of-fixed-part", case, (d.header_len, d.packet_len), 4 + 2 * idw + seqw)
    rec.outcome(f"decoded:idw={idw}:seqw={seqw}")
    if keeper is not None:
        keeper.hold("PduHeader.unpack", d, obs_header, case)


REFUSALS = ["ctor-widths", "set_entity_ids-widths", "ctor-dlen", "setter-dlen"]


def _field_makers():
    """the ways a caller makes an ID field: the width-dispatching generator (typed classes) and the documented base class"""
    return {"typed": U.L.ByteFieldGenerator.from_int, "generic": lambda w, v: U.L.UnsignedByteField(v, w)}


def check_same_width_accepted(rec, w, ka, kb):
    """source and destination ID of the SAME width are accepted whatever classes carry them (typed / generic base class)"""
    rec.case(True, ops=2)
    case = {"kind": "samewidth", "w": w, "classes": [ka, kb]}
    mk = _field_makers()
    src, dst = _idval(0x21, w), _idval(0xB1, w)
    exp = R.header(0, 0, 0, 0, 0, 0, 0, w, 0, 1, src, 3, dst)
    for how in ("ctor", "set_entity_ids"):
        try:
            if how == "ctor":
                conf = U.L.PduConfig(mk[ka](w, src), mk[kb](w, dst), mk["typed"](1, 3), U.L.TransmissionMode(0))
                h = U.L.PduHeader(U.L.PduType(0), U.L.SegmentMetadataFlag(0), 0, conf)
            else:
                conf = U.L.PduConfig(mk["typed"](1, 1), mk["typed"](1, 2), mk["typed"](1, 3), U.L.TransmissionMode(0))
                h = U.L.PduHeader(U.L.PduType(0), U.L.SegmentMetadataFlag(0), 0, conf)
                h.set_entity_ids(mk[ka](w, src), mk[kb](w, dst))
            raw = bytes(h.pack())
        except Exception as e:
            rec.violation(f"C05.encode/PduHeader/{how}/same-width-ids-refused/classes={ka}+{kb}", case, repr(e), exp)
            continue
        if raw != exp:
            rec.violation(f"C05.encode/PduHeader/{how}/octets/classes={ka}+{kb}", case, raw, exp)
    rec.outcome("same-width-accepted")


def check_refusal(rec, how, a, b=None, maker="typed"):
    rec.case(True, ops=1)
    case = {"kind": "refusal", "how": how, "a": str(a), "b": None if b is None else str(b), "maker": maker}
    cfg = dict(U.CFG_DEFAULT)
    try:
        if how.endswith("widths"):
            gen = _field_makers()[maker]
            if how == "ctor-widths":
                conf = U.L.PduConfig(gen(a, 1), gen(b, 2), gen(1, 3), U.L.TransmissionMode(0))
                r = U.L.PduHeader(U.L.PduType(0), U.L.SegmentMetadataFlag(0), 0, conf).pack()
            else:
                h = U.L.PduHeader(U.L.PduType(0), U.L.SegmentMetadataFlag(0), 0, U.pdu_config(cfg))
                h.set_entity_ids(gen(a, 1), gen(b, 2))
                r = h.pack()
        elif how == "ctor-dlen":
            r = U.L.PduHeader(U.L.PduType(1), U.L.SegmentMetadataFlag(0), a, U.pdu_config(cfg)).pack()
        else:
            h = U.L.PduHeader(U.L.PduType(1), U.L.SegmentMetadataFlag(0), 0, U.pdu_config(cfg))
            h.pdu_data_field_len = a
            r = h.pack()
    except documented() as e:
        rec.outcome(f"refused:{how}:{type(e).__name__}")
        return
    except Exception as e:
        rec.violation(f"C05.refuse/PduHeader/{how}/undocumented-exception/{type(e).__name__}", case, repr(e), "ValueError")
        return
    rec.violation(f"C05.refuse/PduHeader/{how}/accepted", case, bytes(r), "ValueError")


def id_sweep_values(width):
    bits = 8 * width
    if width <= 2:
        return list(range(1 << bits))
    vals = D.walk(bits)
    for octet in range(width):
        for b in range(256):
            vals.append(b << (8 * octet))
            vals.append(((1 << bits) - 1) ^ ((0xFF ^ b) << (8 * octet)))
    return D.dedupe(vals)


# ------------------------------------------------------------------------------------------------ histories
# model = plain dict of the header's current values; the oracle is ref/cfdp.header(model) at every observer.
MODEL_KEYS = ("ptype", "dir", "mode", "crc", "large", "segctrl", "segmeta", "idw", "seqw", "src", "seq", "dst", "dlen")
FLAG_SETTERS = [  # public attribute of PduHeader, model key, enum class name
    ("pdu_type", "ptype", "PduType"), ("direction", "dir", "Direction"), ("transmission_mode", "mode", "TransmissionMode"),
    ("crc_flag", "crc", "CrcFlag"), ("file_flag", "large", "LargeFileFlag"), ("seg_ctrl", "segctrl", "SegmentationControl"),
    ("segment_metadata_flag", "segmeta", "SegmentMetadataFlag"),
]
CONF_FLAGS = [  # public field of PduConfig (reachable as header.pdu_conf), model key, enum class name
    ("direction", "dir", "Direction"), ("trans_mode", "mode", "TransmissionMode"), ("crc_flag", "crc", "CrcFlag"),
    ("file_flag", "large", "LargeFileFlag"), ("seg_ctrl", "segctrl", "SegmentationControl"),
]
OBSERVERS = ["header_len", "packet_len", "pack", "conf.header_len", "fields"]
DLEN_VALUES = (0x1234, 0xFEDC)


def _idval(first_octet, width):
    return int.from_bytes(bytes(range(first_octet, first_octet + width)), "big")


def _next_width(w):
    return WIDTHS[(WIDTHS.index(w) + 1) % 4]


def actions():
    """the action alphabet in a fixed order, simplest first: observers, the header's own mutators (each width, each flag,
    accepted and refused arguments), then writes through objects the header hands out (its pdu_conf, its field objects)"""
    out = list(OBSERVERS)
    out += [f"set_entity_ids:{w}" for w in WIDTHS]
    out += [f"transaction_seq_num:{w}" for w in WIDTHS]
    out += [f"pdu_data_field_len:{v}" for v in DLEN_VALUES]
    out += [f"flip:{name}" for name, _, _ in FLAG_SETTERS]
    out += [f"set_entity_ids-mixed:{w}" for w in WIDTHS]
    out += ["pdu_data_field_len:65536"]
    out += [f"pdu_conf.ids:{w}" for w in WIDTHS]
    out += [f"pdu_conf.transaction_seq_num:{w}" for w in WIDTHS]
    out += [f"pdu_conf.flip:{name}" for name, _, _ in CONF_FLAGS]
    out += ["source_entity_id.value", "transaction_seq_num.value", "dest_entity_id.value"]
    return out


ACTIONS = actions()


def family(action):
    """coarse name of an action for signatures (the argument dropped)"""
    return action.split(":")[0] if not action.startswith(("flip:", "pdu_conf.flip:")) else action.replace("flip:", "")


def start_model(bg, start="ctor"):
    if start == "default":  # what PduConfig.default() documents: one-octet IDs and sequence number 0, acknowledged, no CRC, normal files
        rc, m = start_model(bg)
        m.update({"dir": 0, "mode": 0, "crc": 0, "large": 0, "segctrl": 0, "idw": 1, "seqw": 1, "src": 0, "seq": 0, "dst": 0})
        return rc, m
    fl, idw, seqw, dlen, src, seq, dst = background(bg)
    rc = recipe_of(fl, idw, seqw, dlen, src, seq, dst)
    cfg = U.norm(rc)["cfg"]
    s, q, d = R.cfg_ids(cfg)
    m = {"ptype": cfg["ptype"], "dir": cfg["dir"], "mode": cfg["mode"], "crc": cfg["crc"], "large": cfg["large"],
         "segctrl": cfg["segctrl"], "segmeta": cfg["segmeta"], "idw": idw, "seqw": seqw, "src": s, "seq": q, "dst": d, "dlen": dlen}
    return rc, m


_REF_CACHE = {}


def model_ref(m):
    key = tuple(m[k] for k in MODEL_KEYS)
    r = _REF_CACHE.get(key)
    if r is None:
        if len(_REF_CACHE) > 200000:
            _REF_CACHE.clear()
        r = _REF_CACHE[key] = R.header(m["ptype"], m["dir"], m["mode"], m["crc"], m["large"], m["dlen"], m["segctrl"], m["idw"],
                                       m["segmeta"], m["seqw"], m["src"], m["seq"], m["dst"])
    return r


def model_fields(m):
    return (m["ptype"], m["dir"], m["mode"], m["crc"], m["large"], m["segctrl"], m["segmeta"], m["src"], m["idw"], m["seq"],
            m["seqw"], m["dst"], m["idw"], m["dlen"])


FIELD_TO_KEY = ("ptype", "dir", "mode", "crc", "large", "segctrl", "segmeta", "src", "idw", "seq", "seqw", "dst", "idw", "dlen")


class Stop(Exception):
    """a history ends at its first disagreement: (signature, observed, expected)"""


def observe_action(h, m, name, held):
    """execute one observer on the implementation and compare with the model; returns None or (observed, expected)"""
    hlen = 4 + 2 * m["idw"] + m["seqw"]
    if name == "header_len":
        got, exp = int(h.header_len), hlen
    elif name == "packet_len":
        got, exp = int(h.packet_len), hlen + m["dlen"]
    elif name == "conf.header_len":
        got, exp = int(h.pdu_conf.header_len()), hlen
    elif name == "fields":
        got, exp = unit.observe(h), model_fields(m)
    else:
        res = h.pack()
        raw = bytes(res)
        held.append((res, raw))
        # the static helper also answers from the four octets of the fixed part alone (that is what it is for: a stream reader
        # learns how many octets the header has before it has them)
        got, exp = (raw, int(U.L.PduHeader.header_len_from_raw(raw + TAIL)), int(U.L.PduHeader.header_len_from_raw(raw[:4]))), (model_ref(m), hlen, hlen)
    return None if got == exp else (got, exp)


def mutate(h, m, name, rec):
    """execute one mutator on the implementation and on the model.  Raises Stop on a wrong refusal / acceptance."""
    gen = U.L.ByteFieldGenerator.from_int
    fam, _, arg = name.partition(":")
    refused = None
    try:
        if fam == "set_entity_ids":
            w = int(arg)
            new = {"idw": w, "src": _idval(0x21, w), "dst": _idval(0xB1, w)}
            h.set_entity_ids(gen(w, new["src"]), gen(w, new["dst"]))
        elif fam == "set_entity_ids-mixed":
            w = int(arg)
            new, refused = {}, "set_entity_ids"
            h.set_entity_ids(gen(w, _idval(0x21, w)), gen(_next_width(w), _idval(0xB1, _next_width(w))))
        elif fam == "transaction_seq_num":
            w = int(arg)
            new = {"seqw": w, "seq": _idval(0x81, w)}
            h.transaction_seq_num = gen(w, new["seq"])
        elif fam == "pdu_data_field_len":
            v = int(arg)
            new = {"dlen": v} if v <= 0xFFFF else {}
            refused = None if v <= 0xFFFF else "pdu_data_field_len"
            h.pdu_data_field_len = v
        elif fam == "flip":
            attr, key, enum = next(x for x in FLAG_SETTERS if x[0] == arg)
            new = {key: 1 - m[key]}
            setattr(h, attr, getattr(U.L, enum)(new[key]))
        else:
            raise AssertionError(name)
    except ValueError as e:
        if refused is None:
            raise Stop(f"C05.history/PduHeader.{family(name)}/refused-valid-argument", repr(e), "accepted")
        rec.outcome(f"history-refused:{fam}")
        return
    except Exception as e:
        if isinstance(e, AssertionError):
            raise
        raise Stop(f"C05.{'refuse' if refused else 'history'}/PduHeader.{family(name)}/undocumented-exception/{type(e).__name__}", repr(e),
                   "ValueError" if refused else "accepted")
    if refused is not None:
        raise Stop(f"C05.refuse/PduHeader.{refused}/accepted-in-history", "no exception", "ValueError")
    m.update(new)


def backdoor(h, m, name, rec):
    """write through an object the header hands out (header.pdu_conf, a field object).  Whether such a write reaches the
    header is the library's design decision, not the property's: afterwards every field the header reports must be the old
    or the new value, the model takes what the header reports - and everything else (lengths, octets) must agree with THAT."""
    gen = U.L.ByteFieldGenerator.from_int
    fam, _, arg = name.partition(":")
    new = {}
    try:
        if fam == "pdu_conf.ids":
            w = int(arg)
            new = {"idw": w, "src": _idval(0x31, w), "dst": _idval(0xC1, w)}
            h.pdu_conf.source_entity_id = gen(w, new["src"])
            h.pdu_conf.dest_entity_id = gen(w, new["dst"])
        elif fam == "pdu_conf.transaction_seq_num":
            w = int(arg)
            new = {"seqw": w, "seq": _idval(0x91, w)}
            h.pdu_conf.transaction_seq_num = gen(w, new["seq"])
        elif fam == "pdu_conf.flip":
            attr, key, enum = next(x for x in CONF_FLAGS if x[0] == arg)
            new = {key: 1 - m[key]}
            setattr(h.pdu_conf, attr, getattr(U.L, enum)(new[key]))
        else:
            attr, key = {"source_entity_id.value": ("source_entity_id", "src"), "transaction_seq_num.value": ("transaction_seq_num", "seq"),
                         "dest_entity_id.value": ("dest_entity_id", "dst")}[name]
            new = {key: m[key] ^ 1}
            getattr(h, attr).value = new[key]
    except Exception as e:  # noqa: BLE001 - a library that does not offer this write path is not wrong
        rec.outcome(f"history-backdoor-not-offered:{fam}:{type(e).__name__}")
        new = {}
    got = unit.observe(h)
    old = model_fields(m)
    for i, key in enumerate(FIELD_TO_KEY):
        if got[i] != old[i] and got[i] != new.get(key, old[i]):
            raise Stop("C05.history/PduHeader.fields/neither-old-nor-new-after-write-through-handed-out-object", got, old)
    if got[8] != got[12]:
        raise Stop("C05.history/PduHeader.fields/id-widths-differ-after-write-through-handed-out-object", got, old)
    for i, key in enumerate(FIELD_TO_KEY):
        m[key] = got[i]


def start_object(start, m, ref):
    if start == "ctor":
        L = U.L
        conf = L.PduConfig(source_entity_id=L.ByteFieldGenerator.from_int(m["idw"], m["src"]),
                           dest_entity_id=L.ByteFieldGenerator.from_int(m["idw"], m["dst"]),
                           transaction_seq_num=L.ByteFieldGenerator.from_int(m["seqw"], m["seq"]),
                           trans_mode=L.TransmissionMode(m["mode"]), file_flag=L.LargeFileFlag(m["large"]), crc_flag=L.CrcFlag(m["crc"]),
                           seg_ctrl=L.SegmentationControl(m["segctrl"]), direction=L.Direction(m["dir"]))
        return L.PduHeader(L.PduType(m["ptype"]), L.SegmentMetadataFlag(m["segmeta"]), m["dlen"], conf)
    if start == "unpack":
        return U.L.PduHeader.unpack(ref + TAIL)
    if start == "default":
        L = U.L
        return L.PduHeader(L.PduType(m["ptype"]), L.SegmentMetadataFlag(m["segmeta"]), m["dlen"], L.PduConfig.default())
    raise AssertionError(start)


def run_history(rec, start, bg, hist, rc, m0, ref0):
    """one history from a fresh object; returns the number of actions executed"""
    case = {"kind": "history", "start": start, "bg": bg, "actions": list(hist)}
    m = dict(m0)
    held = []
    last = "none"
    step = None
    try:
        h = start_object(start, m0, ref0)
        for step in tuple(hist) + tuple(OBSERVERS[2:]) + tuple(OBSERVERS[:2]):  # the history, then one full observation
            if step in OBSERVERS:
                bad = observe_action(h, m, step, held)
                if bad is not None:
                    raise Stop(f"C05.history/PduHeader.{step}/disagrees-with-reference", bad[0], bad[1])
            elif step.startswith(("pdu_conf.", "source_entity_id.", "transaction_seq_num.value", "dest_entity_id.")):
                backdoor(h, m, step, rec)
                last = family(step)
            else:
                mutate(h, m, step, rec)
                last = family(step)
        for res, snap in held:  # every pack() result handed out during the history is still what it was
            if bytes(res) != snap:
                raise Stop("C05.independence/PduHeader.pack/result-changed-by-a-later-call", bytes(res), snap)
    except Stop as s:
        sig, got, exp = s.args
        rec.violation(sig, case, got, exp, note=f"first disagreement at action {step!r}, last mutator before it: {last}; model={m}")
    except AssertionError:
        raise
    except Exception as e:  # noqa: BLE001 - the library raised where the reference tree does not
        rec.violation(f"C05.history/PduHeader.{family(step) if step else start}/exception/{type(e).__name__}", case, repr(e), None,
                      note=f"at action {step!r}; model={m}")
    n = len(hist) + len(OBSERVERS)
    rec.case(True, ops=n)
    rec.states += 1
    rec.transitions += n
    rec.traces += 1
    return n


def run_histories(rec, start, bg, first, depth):
    """every history of length <= depth whose first action is ACTIONS[first] (the empty history goes with first == 0)"""
    rc, m0 = start_model(bg, start)
    ref0 = model_ref(m0)
    n = 0
    if first == 0:
        run_history(rec, start, bg, (), rc, m0, ref0)
        n += 1
    a0 = ACTIONS[first]
    for length in range(0, depth):
        for tail in itertools.product(ACTIONS, repeat=length):
            run_history(rec, start, bg, (a0,) + tail, rc, m0, ref0)
            n += 1
    rec.count("histories", n)
    rec.count(f"histories_from_{start}", n)
    return n


# --------------------------------------------------------------------------------------------- independence
def produce(recipe):
    """every way the library hands out a header / its octets for one recipe: [(subject, object, observe)]"""
    r = U.norm(recipe)
    ref = R.encode_header(r["cfg"], r["params"])
    h = unit.build(recipe)
    p = h.pack()
    d = U.L.PduHeader.unpack(ref + TAIL)
    q = d.pack()
    d2 = U.L.PduHeader.unpack(bytearray(ref))
    return [("PduHeader.__init__", h, obs_header), ("PduHeader.pack", p, bytes), ("PduHeader.unpack", d, obs_header),
            ("PduHeader.pack", q, bytes), ("PduHeader.unpack", d2, obs_header)]


def exercise(recipe):
    """use the library on another header: build, pack, decode, read the lengths, then drive every public mutator of the
    objects obtained (none of which is one of the held results)"""
    gen = U.L.ByteFieldGenerator.from_int
    r = U.norm(recipe)["cfg"]
    for k, (_, o, _) in enumerate(produce(recipe)):
        if isinstance(o, (bytes, bytearray)):
            if isinstance(o, bytearray):
                for i in range(len(o)):  # the caller owns what pack() returned
                    o[i] ^= 0xFF
            continue
        _ = (o.header_len, o.packet_len)
        for attr, key, enum in FLAG_SETTERS:
            setattr(o, attr, getattr(U.L, enum)(1 - r.get(key, 0)))
        for attr in ("source_entity_id", "transaction_seq_num", "dest_entity_id"):
            f = getattr(o, attr)
            try:
                f.value = int(f.value) ^ (0x51 + k)  # B's own field objects: may or may not reach B, must never reach A
                # (a different pattern per object: two writes to one shared object must not cancel)
            except Exception:  # noqa: BLE001 - a library with read-only field objects is not wrong
                pass
        _ = o.pack()
        w, s = _next_width(r["idw"]), _next_width(_next_width(r["seqw"]))
        o.set_entity_ids(gen(w, _idval(0x21, w)), gen(w, _idval(0xB1, w)))
        o.transaction_seq_num = gen(s, _idval(0x81, s))
        o.pdu_data_field_len = 0xFFFF ^ int(o.pdu_data_field_len)
        _ = (o.pack(), o.header_len, o.packet_len)


def neighbours(fl, idw, seqw):
    """recipes that differ from (fl, idw, seqw, dlen 0x1234, default IDs) in exactly one field, the identical recipe (a second
    decode of the very same octets must give an independent object) and the recipe that differs in every field"""
    out = [("same", recipe_of(fl, idw, seqw, 0x1234))]
    for i in range(7):
        f2 = tuple(b ^ (1 if k == i else 0) for k, b in enumerate(fl))
        out.append((f"flag{i}", recipe_of(f2, idw, seqw, 0x1234)))
    out += [(f"idw{w}", recipe_of(fl, w, seqw, 0x1234)) for w in WIDTHS if w != idw]
    out += [(f"seqw{w}", recipe_of(fl, idw, w, 0x1234)) for w in WIDTHS if w != seqw]
    out.append(("dlen", recipe_of(fl, idw, seqw, 0xEDCB)))
    out.append(("src", recipe_of(fl, idw, seqw, 0x1234, src=_idval(0x21, idw))))
    out.append(("seq", recipe_of(fl, idw, seqw, 0x1234, seq=_idval(0x81, seqw))))
    out.append(("dst", recipe_of(fl, idw, seqw, 0x1234, dst=_idval(0xB1, idw))))
    w, s = _next_width(idw), _next_width(_next_width(seqw))
    out.append(("all", recipe_of(tuple(1 - b for b in fl), w, s, 0xEDCB, _idval(0x21, w), _idval(0x81, s), _idval(0xB1, w))))
    return out


_COMBOS = []


def alias_combos():
    if not _COMBOS:
        _COMBOS.extend((fl, idw, seqw) for fl in FLAGS for idw in WIDTHS for seqw in WIDTHS)
    return _COMBOS


def alias_case(rec, ai, bi):
    """hold everything the library hands out for header A (combination number ai), use the library on header B (neighbour
    number bi of A), re-observe A's results.  The case is self-contained: it replays alone."""
    fl, idw, seqw = alias_combos()[ai]
    ra = recipe_of(fl, idw, seqw, 0x1234)
    name, rb = neighbours(fl, idw, seqw)[bi]
    case = {"kind": "alias", "a": ai, "b": bi}
    rec.case(True, ops=30)
    keeper = Keeper(rec, PROPERTY, depth=8)
    for subject, obj, observe in produce(ra):
        keeper.hold(subject, obj, observe, case)
    exercise(rb)
    keeper.recheck({"held": ra, "library_then_used_on": rb, "differs_in": name})
    keeper.flush()


def shards(tier):
    items = []
    for part in range(8):
        items.append({"job": "flags", "part": part, "parts": 8})
    for j in range(_k(tier)):
        for part in range(4):
            items.append({"job": "dlen", "bg": j, "part": part, "parts": 4})
    for width in WIDTHS:
        kk = (1 if tier == "quick" else 2) if width == 2 else _k(tier)
        for field in ("src", "seq", "dst"):
            for j in range(kk):
                parts = 4 if width == 2 else 1
                for part in range(parts):
                    items.append({"job": "ids", "width": width, "field": field, "bg": j, "part": part, "parts": parts})
    for part in range(4):
        items.append({"job": "decode", "part": part, "parts": 4})
    items.append({"job": "refuse", "n": _n(tier)})
    for part in range(8):
        items.append({"job": "alias", "part": part, "parts": 8})
    for start in HISTORY_STARTS:
        for bg in range(4 if start != "default" else 2):
            for first in range(len(ACTIONS)):
                items.append({"job": "history", "start": start, "bg": bg, "first": first, "depth": _depth(tier)})
    return items


def run_shard(item):
    rec = Rec(PROPERTY, item)
    seen = set()
    job = item["job"]
    keeper = Keeper(rec, PROPERTY, depth=KEEP)  # every result is re-observed after the next case of the enumeration
    if job == "history":
        run_histories(rec, item["start"], item["bg"], item["first"], item["depth"])
        rec.sample({"history": {"start": item["start"], "background": item["bg"],
                                "actions": [ACTIONS[item["first"]], ACTIONS[-1], ACTIONS[0]][:item["depth"]]}}, limit=1)
        return rec.result()
    if job == "alias":
        combos = alias_combos()
        lo, hi = len(combos) * item["part"] // item["parts"], len(combos) * (item["part"] + 1) // item["parts"]
        n = 0
        for ai in range(lo, hi):
            for bi in range(len(neighbours(*combos[ai]))):
                alias_case(rec, ai, bi)
                n += 1
        rec.count("independence_pairs", n)
        rec.sample({"independence_pair": {"held": recipe_of(*combos[lo], 0x1234), "library_then_used_on": neighbours(*combos[lo])[-1][1]}}, limit=1)
    elif job == "flags":
        flags = FLAGS[len(FLAGS) * item["part"] // item["parts"]: len(FLAGS) * (item["part"] + 1) // item["parts"]]
        for fl in flags:
            for idw in WIDTHS:
                for seqw in WIDTHS:
                    for dlen in D.edge(16):
                        for j in range(4):
                            header_case(rec, seen, recipe_of(fl, idw, seqw, dlen, id_background(j, idw), id_background(j, seqw),
                                                             id_background(j + 1, idw) if j else None), keeper=keeper)
        rec.count("flag_width_headers", len(flags) * 16 * len(D.edge(16)) * 4)
        r = recipe_of(flags[-1], 4, 2, 0x5555)
        rec.sample({"recipe": r, "expected_octets": unit.ref(r)}, limit=1)
    elif job == "dlen":
        fl, idw, seqw, _, src, seq, dst = background(item["bg"])
        lo, hi = 65536 * item["part"] // item["parts"], 65536 * (item["part"] + 1) // item["parts"]
        edge16 = set(D.edge(16))
        hs = unit.build(recipe_first(recipe_of(fl, idw, seqw, lo, src, seq, dst), "dlen"))
        for dlen in range(lo, hi):
            rc = recipe_of(fl, idw, seqw, dlen, src, seq, dst)
            header_case(rec, seen, rc, dup=dlen in edge16, keeper=keeper)
            setter_path(rec, hs, rc, "dlen")
        rec.count("setter_path_assignments", hi - lo)
        rec.count("data_field_length_values_swept", hi - lo)
        r = recipe_of(fl, idw, seqw, lo + 0x0102, src, seq, dst)
        rec.sample({"recipe": r, "expected_octets": unit.ref(r)}, limit=1)
    elif job == "ids":
        width, field = item["width"], item["field"]
        fl, bidw, bseqw, dlen, _, _, _ = background(item["bg"])
        idw, seqw = (bidw, width) if field == "seq" else (width, bseqw)
        vals = id_sweep_values(width)
        vals = vals[len(vals) * item["part"] // item["parts"]: len(vals) * (item["part"] + 1) // item["parts"]]
        others = {"src": id_background(item["bg"], idw), "seq": id_background(item["bg"], seqw), "dst": id_background(item["bg"] + 1, idw) if item["bg"] else None}
        std = dict(zip(("src", "seq", "dst"), R.cfg_ids({"idw": idw, "seqw": seqw})))
        bgval = others[field] if others[field] is not None else std[field]
        hs = None
        for v in vals:
            ids = dict(others)
            ids[field] = v
            rc = recipe_of(fl, idw, seqw, dlen, ids["src"], ids["seq"], ids["dst"])
            header_case(rec, seen, rc, dup=v == bgval, keeper=keeper)
            if hs is None:
                hs = unit.build(recipe_first(rc, field))
            setter_path(rec, hs, rc, field)
        rec.count("setter_path_assignments", len(vals))
        rec.count(f"{field}_width{width}_values_swept", len(vals))
        ids = dict(others)
        ids[field] = vals[len(vals) // 2]
        r = recipe_of(fl, idw, seqw, dlen, ids["src"], ids["seq"], ids["dst"])
        rec.sample({"recipe": r, "expected_octets": unit.ref(r)}, limit=1)
    elif job == "decode":
        lo, hi = 256 * item["part"] // item["parts"], 256 * (item["part"] + 1) // item["parts"]
        for o0 in range(lo, hi):
            for o3 in range(256):
                check_decode_pair(rec, o0, o3, keeper)
        rec.count("fixed_part_pairs", (hi - lo) * 256)
        rec.sample({"decode_pair": {"octet0": lo, "octet3": 0x13, "tail": TAIL}}, limit=1)
    elif job == "refuse":
        for a in WIDTHS:
            for b in WIDTHS:
                if a != b:
                    for maker in ("typed", "generic"):
                        check_refusal(rec, "ctor-widths", a, b, maker)
                        check_refusal(rec, "set_entity_ids-widths", a, b, maker)
        for w in WIDTHS:
            for ka in ("typed", "generic"):
                for kb in ("typed", "generic"):
                    check_same_width_accepted(rec, w, ka, kb)
        vals = [v for v in D.out_of_range(65535, item["n"]) if v > 65535]
        for v in vals:
            check_refusal(rec, "ctor-dlen", v)
            check_refusal(rec, "setter-dlen", v)
        rec.count("refusal_cases", 24 + 2 * len(vals))
        rec.sample({"refuse": "pdu_data_field_len", "first": vals[:3], "count": len(vals)}, limit=1)
    keeper.recheck({"kind": "end-of-shard"})
    keeper.flush()
    # engine V jobs: a state is a distinct case, a transition a compared library operation, a trace an executed case
    rec.states, rec.transitions, rec.traces = rec.nontrivial, rec.ops, rec.evaluations
    return rec.result()


def replay(case):
    rec = Rec(PROPERTY, "replay")
    if case["kind"] == "pdu":
        rec.case(True, ops=15)
        U.judge(rec, PROPERTY, None, unit, case["recipe"], "class", True, evaluate_header)
    elif case["kind"] == "pair":
        check_decode_pair(rec, case["o0"], case["o3"])
    elif case["kind"] == "refusal":
        check_refusal(rec, case["how"], int(case["a"]), None if case["b"] is None else int(case["b"]), case.get("maker", "typed"))
    elif case["kind"] == "samewidth":
        check_same_width_accepted(rec, case["w"], *case["classes"])
    elif case["kind"] == "setter":
        rec.case(True)
        setter_path(rec, unit.build(case["first"]), case["recipe"], case["how"])
    elif case["kind"] == "history":
        rc, m0 = start_model(case["bg"], case["start"])
        run_history(rec, case["start"], case["bg"], tuple(case["actions"]), rc, m0, model_ref(m0))
    elif case["kind"] == "alias":
        alias_case(rec, int(case["a"]), int(case["b"]))
    return rec.result()


def finalize(tier, agg):
    c = agg["counters"]
    return {
        "flag_combinations": 128, "width_combinations": 16, "backgrounds": _k(tier),
        "data_field_length_coverage": f"{c.get('data_field_length_values_swept', 0) // max(1, _k(tier))}/65536 in each of {_k(tier)} backgrounds",
        "id_value_sweeps": {k: v for k, v in c.items() if k.endswith("_values_swept") and k[:3] in ("src", "seq", "dst")},
        "fixed_part_pairs_decoded_or_refused": c.get("fixed_part_pairs", 0),
        "refusal_cases": c.get("refusal_cases", 0),
        "history_depth": _depth(tier), "history_alphabet": ACTIONS, "history_start_states": len(HISTORY_STARTS) * 4,
        "histories_executed": c.get("histories", 0),
        "setter_path_assignments_on_long_lived_headers": c.get("setter_path_assignments", 0),
        "independence_pairs": c.get("independence_pairs", 0),
        "independence_results_held": c.get("independence_results_held", 0),
        "independence_reobservations": c.get("independence_reobservations", 0),
    }
