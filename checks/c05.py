"""C05 - CFDP fixed PDU header (engine V).  DESIGN.md section 4, C05.

Encoder side: PduHeader(...).pack() == 001 t d m c l | len16 | s www f www | src | seq | dst (ref/cfdp.py), header_len,
packet_len, PduConfig.header_len(), header_len_from_raw; decoder side: PduHeader.unpack returns every value and width;
refusals: ID widths that differ, data field length > 65535, version != 1, width code not in {1,2,4,8}."""

from __future__ import annotations

import itertools

from mc import domains as D
from mc.rec import Rec
from ref import cfdp as R
from units import cfdp_pdu as U

PROPERTY = "C05"
LEVEL = "model_checking"  # bounded-exhaustive enumeration of executions against a reference model (DESIGN.md 1, 2.1)
EXHAUSTIVE = True
RULE = (
    "case = one header (7 flag bits, ID width, sequence width, data field length, source / sequence / destination "
    "values). Enumerated completely: (a) all 128 flag combinations x 16 width combinations x edge(16) data field lengths "
    "x 4 ID backgrounds; (b) the data field length over all 65536 values in K backgrounds of the other fields; (c) each "
    "of source ID, sequence number, destination ID swept separately - every value for widths 1 and 2, walk(8w) plus "
    "every value of every single octet for widths 4 and 8 - in K backgrounds; (d) decoder: every (octet 0, octet 3) pair "
    "(65536: every version, flag bit and width code) in front of a long-enough tail; (e) refusals: the 12 ordered pairs of "
    "different ID widths, data field lengths 65536..65535+N and 2^k through constructor and setter. A case counts as "
    "distinct non-trivial when no other sweep produces the same header (measured with a per-shard set; across shards the "
    "only overlaps are sweep values equal to a background value, which job (a) already produced - those are executed but "
    "not counted as distinct)."
)
BOUNDS = {"quick": "K=2 (width-2 ID sweeps K=1), N=4096", "thorough": "K=4 (width-2 ID sweeps K=2), N=65536"}
ASSUMPTIONS = [
    "reference encoder ref/cfdp.py transcribes CCSDS 727.0-B-5 5.1 (bound to the repository's expected byte vectors by selftest/st_ref_cfdp.py)",
    "two arbitrary non-background ID values in two different fields at once are only covered by the backgrounds",
]

FLAGS = list(itertools.product((0, 1), repeat=7))  # ptype, dir, mode, crc, large, segctrl, segmeta
WIDTHS = (1, 2, 4, 8)
TAIL = bytes(range(0xC1, 0xC1 + 27))
unit = U.UNITS["PduHeader"]


def _k(tier):
    return 2 if tier == "quick" else 4


def _n(tier):
    return 4096 if tier == "quick" else 65536


def recipe_of(flags, idw, seqw, dlen, src=None, seq=None, dst=None):
    t, d, m, c, l, sc, sm = flags
    cfg = {"crc": c, "large": l, "idw": idw, "seqw": seqw, "mode": m, "segctrl": sc, "ptype": t, "dir": d, "segmeta": sm}
    for k, v in (("src", src), ("seq", seq), ("dst", dst)):
        if v is not None:
            cfg[k] = v
    return {"cfg": cfg, "params": {"dlen": dlen}}


def id_background(j, width):
    """j-th background value of an ID field of the given width (0 = the asymmetric default scheme -> None)"""
    bits = 8 * width
    return [None, (1 << bits) - 1, 0, D.alt(bits, False)][j % 4]


def background(j):
    """j-th background for 'the other fields': (flags, idw, seqw, dlen, src, seq, dst)"""
    flags = [(0,) * 7, (1,) * 7, (0, 1, 0, 1, 0, 1, 0), (1, 0, 1, 0, 1, 0, 1)][j % 4]
    idw, seqw = [(1, 1), (8, 8), (2, 4), (4, 2)][j % 4]
    dlen = [0, 0xFFFF, 0x5555, 0xAAAA][j % 4]
    return flags, idw, seqw, dlen, id_background(j, idw), id_background(j, seqw), id_background(j + 1, idw) if j else None


def evaluate_header(u, recipe, via="class", encode_side=True):
    r = U.norm(recipe)
    cfg, p = r["cfg"], r["params"]
    ref = R.encode_header(cfg, p)
    hlen = 4 + 2 * cfg["idw"] + cfg["seqw"]
    assert len(ref) == hlen
    try:
        conf = U.pdu_config(cfg, cfg.get("dir", 0))
        h = U.L.PduHeader(U.L.PduType(cfg.get("ptype", 0)), U.L.SegmentMetadataFlag(cfg.get("segmeta", 0)), p["dlen"], conf)
    except Exception as e:
        return U.Failure("encode", "PduHeader.__init__", "exception", repr(e), ref)
    try:
        raw = bytes(h.pack())
    except Exception as e:
        return U.Failure("encode", "PduHeader.pack", "exception", repr(e), ref)
    if raw != ref:
        return U.Failure("encode", "PduHeader.pack", "octets", raw, ref)
    lens = (int(h.header_len), int(h.packet_len), int(conf.header_len()), int(U.L.PduHeader.header_len_from_raw(ref + TAIL)))
    if lens != (hlen, hlen + p["dlen"], hlen, hlen):
        return U.Failure("length", "PduHeader.header_len", "header_len/packet_len/PduConfig.header_len/header_len_from_raw", lens,
                         (hlen, hlen + p["dlen"], hlen, hlen))
    exp = u._exp(cfg, p)
    for what, data in (("", ref + TAIL), ("-exact-buffer", ref)):
        try:
            d = U.L.PduHeader.unpack(data)
        except Exception as e:
            return U.Failure("decode", "PduHeader.unpack", "refused" + what, repr(e), exp)
        obs = u.observe(d)
        if obs != exp:
            names = U.HEADER_FIELDS + ["data_field_len"]
            diff = [names[i] for i in range(len(exp)) if obs[i] != exp[i]]
            return U.Failure("decode", "PduHeader.unpack", "fields=" + "+".join(diff), obs, exp)
        lens = (int(d.header_len), int(d.packet_len))
        if lens != (hlen, hlen + p["dlen"]):
            return U.Failure("decode", "PduHeader.unpack", "decoded-length", lens, (hlen, hlen + p["dlen"]))
        try:
            again = bytes(d.pack())
        except Exception as e:
            return U.Failure("decode", "PduHeader.unpack", "repack", repr(e), ref)
        if again != ref:
            return U.Failure("decode", "PduHeader.unpack", "repack", again, ref)
    return None


def header_case(rec, seen, recipe, dup=False):
    """dup: the same header is also produced by the 'flags' job (counted as executed, not as distinct)"""
    key = (tuple(sorted(recipe["cfg"].items())), recipe["params"]["dlen"])
    fresh = key not in seen and not dup
    seen.add(key)
    rec.case(fresh, ops=12)
    return U.judge(rec, PROPERTY, None, unit, recipe, "class", True, evaluate_header)


def documented():
    return (ValueError, U.L.UnsupportedCfdpVersion)


def check_decode_pair(rec, o0, o3):
    """every fixed part: octet 0 (version, flags) and octet 3 (width codes, flags) in front of a long tail"""
    raw = bytes([o0, 0x12, 0x34, o3]) + TAIL
    rec.case(True, ops=2)
    case = {"kind": "pair", "o0": o0, "o3": o3}
    version, idw, seqw = o0 >> 5, ((o3 >> 4) & 7) + 1, (o3 & 7) + 1
    valid = version == 1 and idw in WIDTHS and seqw in WIDTHS
    why = "version!=1" if version != 1 else "width-code"
    try:
        d = U.L.PduHeader.unpack(raw)
    except documented() as e:
        if valid:
            rec.violation("C05.decode/PduHeader.unpack/refused-valid-fixed-part", case, repr(e), None)
        else:
            rec.outcome(f"refused:{why}:{type(e).__name__}")
        return
    except Exception as e:
        rec.violation(f"C05.{'decode' if valid else 'refuse'}/PduHeader.unpack/undocumented-exception/{type(e).__name__}", case, repr(e),
                      "fields" if valid else "ValueError or UnsupportedCfdpVersion")
        return
    if not valid:
        rec.violation(f"C05.refuse/PduHeader.unpack/accepted/{why}", case, repr(d), "ValueError or UnsupportedCfdpVersion")
        return
    f = R.header_fields(raw)
    src, seq, dst = R.id_fields(raw)
    exp = (f["ptype"], f["dir"], f["mode"], f["crc"], f["large"], f["segctrl"], f["segmeta"], src, idw, seq, seqw, dst, idw, 0x1234)
    obs = unit.observe(d)
    if obs != exp:
        rec.violation("C05.decode/PduHeader.unpack/fields-of-fixed-part", case, obs, exp)
        return
    if (d.header_len, d.packet_len, U.L.PduHeader.header_len_from_raw(raw)) != (4 + 2 * idw + seqw, 4 + 2 * idw + seqw + 0x1234, 4 + 2 * idw + seqw):
        rec.violation("C05.decode/PduHeader.unpack/decoded-length-of-fixed-part", case, (d.header_len, d.packet_len), 4 + 2 * idw + seqw)
    rec.outcome(f"decoded:idw={idw}:seqw={seqw}")


REFUSALS = ["ctor-widths", "set_entity_ids-widths", "ctor-dlen", "setter-dlen"]


def check_refusal(rec, how, a, b=None):
    rec.case(True, ops=1)
    case = {"kind": "refusal", "how": how, "a": str(a), "b": None if b is None else str(b)}
    cfg = dict(U.CFG_DEFAULT)
    try:
        if how.endswith("widths"):
            gen = U.L.ByteFieldGenerator.from_int
            if how == "ctor-widths":
                conf = U.L.PduConfig(gen(a, 1), gen(b, 2), gen(1, 3), U.L.TransmissionMode(0))
                r = U.L.PduHeader(U.L.PduType(0), U.L.SegmentMetadataFlag(0), 0, conf).pack()
            else:
                h = U.L.PduHeader(U.L.PduType(0), U.L.SegmentMetadataFlag(0), 0, U.pdu_config(cfg))
                h.set_entity_ids(gen(a, 1), gen(b, 2))
                r = h.pack()
        elif how == "ctor-dlen":
            r = U.L.PduHeader(U.L.PduType(1), U.L.SegmentMetadataFlag(0), a, U.pdu_config(cfg)).pack()
        else:
            h = U.L.PduHeader(U.L.PduType(1), U.L.SegmentMetadataFlag(0), 0, U.pdu_config(cfg))
            h.pdu_data_field_len = a
            r = h.pack()
    except documented() as e:
        rec.outcome(f"refused:{how}:{type(e).__name__}")
        return
    except Exception as e:
        rec.violation(f"C05.refuse/PduHeader/{how}/undocumented-exception/{type(e).__name__}", case, repr(e), "ValueError")
        return
    rec.violation(f"C05.refuse/PduHeader/{how}/accepted", case, bytes(r), "ValueError")


def id_sweep_values(width):
    bits = 8 * width
    if width <= 2:
        return list(range(1 << bits))
    vals = D.walk(bits)
    for octet in range(width):
        for b in range(256):
            vals.append(b << (8 * octet))
            vals.append(((1 << bits) - 1) ^ ((0xFF ^ b) << (8 * octet)))
    return D.dedupe(vals)


def shards(tier):
    items = []
    for part in range(8):
        items.append({"job": "flags", "part": part, "parts": 8})
    for j in range(_k(tier)):
        for part in range(4):
            items.append({"job": "dlen", "bg": j, "part": part, "parts": 4})
    for width in WIDTHS:
        kk = (1 if tier == "quick" else 2) if width == 2 else _k(tier)
        for field in ("src", "seq", "dst"):
            for j in range(kk):
                parts = 4 if width == 2 else 1
                for part in range(parts):
                    items.append({"job": "ids", "width": width, "field": field, "bg": j, "part": part, "parts": parts})
    for part in range(4):
        items.append({"job": "decode", "part": part, "parts": 4})
    items.append({"job": "refuse", "n": _n(tier)})
    return items


def run_shard(item):
    rec = Rec(PROPERTY, item)
    seen = set()
    job = item["job"]
    if job == "flags":
        flags = FLAGS[len(FLAGS) * item["part"] // item["parts"]: len(FLAGS) * (item["part"] + 1) // item["parts"]]
        for fl in flags:
            for idw in WIDTHS:
                for seqw in WIDTHS:
                    for dlen in D.edge(16):
                        for j in range(4):
                            header_case(rec, seen, recipe_of(fl, idw, seqw, dlen, id_background(j, idw), id_background(j, seqw),
                                                             id_background(j + 1, idw) if j else None))
        rec.count("flag_width_headers", len(flags) * 16 * len(D.edge(16)) * 4)
        r = recipe_of(flags[-1], 4, 2, 0x5555)
        rec.sample({"recipe": r, "expected_octets": unit.ref(r)}, limit=1)
    elif job == "dlen":
        fl, idw, seqw, _, src, seq, dst = background(item["bg"])
        lo, hi = 65536 * item["part"] // item["parts"], 65536 * (item["part"] + 1) // item["parts"]
        edge16 = set(D.edge(16))
        for dlen in range(lo, hi):
            header_case(rec, seen, recipe_of(fl, idw, seqw, dlen, src, seq, dst), dup=dlen in edge16)
        rec.count("data_field_length_values_swept", hi - lo)
        r = recipe_of(fl, idw, seqw, lo + 0x0102, src, seq, dst)
        rec.sample({"recipe": r, "expected_octets": unit.ref(r)}, limit=1)
    elif job == "ids":
        width, field = item["width"], item["field"]
        fl, bidw, bseqw, dlen, _, _, _ = background(item["bg"])
        idw, seqw = (bidw, width) if field == "seq" else (width, bseqw)
        vals = id_sweep_values(width)
        vals = vals[len(vals) * item["part"] // item["parts"]: len(vals) * (item["part"] + 1) // item["parts"]]
        others = {"src": id_background(item["bg"], idw), "seq": id_background(item["bg"], seqw), "dst": id_background(item["bg"] + 1, idw) if item["bg"] else None}
        std = dict(zip(("src", "seq", "dst"), R.cfg_ids({"idw": idw, "seqw": seqw})))
        bgval = others[field] if others[field] is not None else std[field]
        for v in vals:
            ids = dict(others)
            ids[field] = v
            header_case(rec, seen, recipe_of(fl, idw, seqw, dlen, ids["src"], ids["seq"], ids["dst"]), dup=v == bgval)
        rec.count(f"{field}_width{width}_values_swept", len(vals))
        ids = dict(others)
        ids[field] = vals[len(vals) // 2]
        r = recipe_of(fl, idw, seqw, dlen, ids["src"], ids["seq"], ids["dst"])
        rec.sample({"recipe": r, "expected_octets": unit.ref(r)}, limit=1)
    elif job == "decode":
        lo, hi = 256 * item["part"] // item["parts"], 256 * (item["part"] + 1) // item["parts"]
        for o0 in range(lo, hi):
            for o3 in range(256):
                check_decode_pair(rec, o0, o3)
        rec.count("fixed_part_pairs", (hi - lo) * 256)
        rec.sample({"decode_pair": {"octet0": lo, "octet3": 0x13, "tail": TAIL}}, limit=1)
    elif job == "refuse":
        for a in WIDTHS:
            for b in WIDTHS:
                if a != b:
                    check_refusal(rec, "ctor-widths", a, b)
                    check_refusal(rec, "set_entity_ids-widths", a, b)
        vals = [v for v in D.out_of_range(65535, item["n"]) if v > 65535]
        for v in vals:
            check_refusal(rec, "ctor-dlen", v)
            check_refusal(rec, "setter-dlen", v)
        rec.count("refusal_cases", 24 + 2 * len(vals))
        rec.sample({"refuse": "pdu_data_field_len", "first": vals[:3], "count": len(vals)}, limit=1)
    return rec.result()


def replay(case):
    rec = Rec(PROPERTY, "replay")
    if case["kind"] == "pdu":
        rec.case(True, ops=12)
        U.judge(rec, PROPERTY, None, unit, case["recipe"], "class", True, evaluate_header)
    elif case["kind"] == "pair":
        check_decode_pair(rec, case["o0"], case["o3"])
    elif case["kind"] == "refusal":
        check_refusal(rec, case["how"], int(case["a"]), None if case["b"] is None else int(case["b"]))
    return rec.result()


def finalize(tier, agg):
    c = agg["counters"]
    return {
        "flag_combinations": 128, "width_combinations": 16, "backgrounds": _k(tier),
        "data_field_length_coverage": f"{c.get('data_field_length_values_swept', 0) // max(1, _k(tier))}/65536 in each of {_k(tier)} backgrounds",
        "id_value_sweeps": {k: v for k, v in c.items() if k.endswith("_values_swept") and k[:3] in ("src", "seq", "dst")},
        "fixed_part_pairs_decoded_or_refused": c.get("fixed_part_pairs", 0),
        "refusal_cases": c.get("refusal_cases", 0),
    }
