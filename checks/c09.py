"""C09 - decoders never read past the declared packet; trailing octets cannot leak in (engine F `suffix`).
DESIGN.md section 2.2 (`suffix` family) and section 4, C09.

Three clauses, all relative to the *unfaulted decode* of the very same octets (DESIGN.md: "C09: result identical
to the unfaulted decode"); the octets themselves come from the reference encoders of ref/ (unit.ref), never from
the library:

suffix       self-delimiting units (unit.self_delimiting and not unit.is_cfdp_pdu): for every corpus recipe, every
             decoder of the unit and every suffix s of the alphabet, decode(u+s) must succeed, observe() must equal
             observe(decode(u)), the reported length must be len(u), the re-pack must be u (where decode(u) re-packs
             to u) and decode(u+s) == decode(u) (where two decodes of u compare equal at all).
split        every ordered pair (thorough: also triples) of corpus units of self-delimiting kinds is concatenated and
             split purely by the lengths the decoded objects report; every piece must be the original unit.
pdu          complete CFDP PDUs (unit.is_cfdp_pdu) through <Kind>.unpack and PduFactory.from_raw: decode(u+s) gives
             the parameters of the exact decode and re-packs to u, or raises a documented error. Any other object,
             or any other exception, is the violation. s = b"" is part of the alphabet: a CRC-flagged PDU must
             decode to the parameters of its CRC-less twin (same recipe, CRC flag cleared) - the twin is the
             unfaulted decode here, so that what is judged is exactly "the CRC trailer is folded into the
             parameters" and nothing that C06 / C07 own (a wrongly decoded condition code is the same with and
             without CRC). A CRC-flagged PDU that is *refused* although its twin decodes is reported too (the only
             difference between the two buffers is the trailer).
"""

from __future__ import annotations

import json

from mc import domains as D
from mc.rec import Hang, Rec, Watchdog, jsonable, unhex
from ref import crc16 as RCRC
from ref import tlv as RT
from units.base import registry

PROPERTY = "C09"
LEVEL = "fault_enumeration"
EXHAUSTIVE = True
RULE = (
    "case = (unit kind, corpus recipe, decoder entry point, suffix). Units: every kind of units.base.registry() that is "
    "self-delimiting or a CFDP PDU (plus the TM secondary header, whose size is fixed by the timestamp length handed to "
    "its decoder); recipes: unit.corpus(tier); octets: unit.ref(recipe) (reference encoders). Suffix alphabet, enumerated "
    "completely for every (recipe, decoder): each single octet 0..255; runs of 2..16 zero / 0xFF octets; octets that look "
    "like a TLV (for each of the 6 defined types: empty value, one-octet value, 32-octet value, a dangling header whose "
    "length octet promises more than follows, and concrete TLVs of every class), like an LV, like an 8 / 16 / 2x8-octet "
    "segment request, the 2-octet CRC-16 of the unit itself (zero-residue pair) and its complement; for PDUs also the "
    "empty suffix, a copy of the PDU and every PDU of the corpora of all eight kinds (back-to-back PDUs). Back-to-back "
    "self-delimiting units are the split clause: every ordered pair of (recipe, decoder) x recipe over all self-delimiting "
    "kinds, split by reported lengths only. Cases are pairwise distinct by construction (shards partition unit x recipe "
    "range; the suffix list of a recipe is de-duplicated by content, a suffix that equals an earlier one is not executed "
    "again); the empty suffix on a PDU without CRC is the baseline itself and is counted as trivial."
)
BOUNDS = {
    "quick": "corpus('quick'): 415 self-delimiting recipes (597 recipe x decoder) + 272 PDU recipes x 2 entry points; 369 generic suffixes + "
             "CRC pair + complemented CRC per (recipe, decoder), PDUs also empty suffix + self copy + 272 back-to-back PDUs; all 597 x 415 "
             "ordered pairs of self-delimiting corpus units",
    "thorough": "corpus('thorough'): 716 self-delimiting recipes (1210 recipe x decoder) + 544 PDU recipes x 2 entry points; 8802 generic "
                "suffixes (adds runs up to 64 and 255/256 octets, every 2-octet string whose first octet is in walk(8) or 0..15 (33 x 256), "
                "shaped strings of length 3..32, every TLV of the thorough TLV corpora, TLV pairs) + CRC pair + complemented CRC, PDUs also "
                "empty suffix + self copy + 544 back-to-back PDUs; all 1210 x 716 ordered pairs; all ordered triples within a unit family "
                "(CCSDS time 108^3, PUS 153^3, CFDP header 64^3, TLV/LV 121^3, USLP 109^3; PUS and TLV/LV with their quick corpora) and all triples of the first 3 recipes of every kind across families (69^3 minus "
                "the in-family ones)",
}
ASSUMPTIONS = [
    "unit.ref (ref/*.py, bound to the repository's byte vectors by selftest/st_ref_*.py) yields valid packed units; that the "
    "library's pack() produces the same octets is C01-C08 / C17",
    "the oracle is relative: decode(u+s) is compared with decode(u) (PDUs with CRC: with the decode of the CRC-less twin); a "
    "decoder that is wrong in the same way with and without trailing octets is the business of the round-trip properties",
    "self-delimiting units must be accepted with trailing octets (otherwise back-to-back units cannot be split); CFDP PDUs "
    "may be refused with ValueError / InvalidCrc / UnsupportedCfdpVersion / TlvTypeMissmatch",
    "FailureNotice, the USLP transfer frame data field and truncated USLP frames have no length of their own "
    "(unit.self_delimiting is False) and are not judged",
    "suffixes longer than 16 octets are covered by shaped contents and by real units, not exhaustively",
]

EXTRA_SD = ("PusTmSecondaryHeader",)  # caller-delimited: fixed size given the timestamp length handed to the decoder
SAMPLE_UNITS = ("PusTm", "FileStoreResponseTlv", "UslpPrimaryHeader", "MetadataPdu", "FileDataPdu")  # evidence samples come from these
TRIPLE_CAP = 128  # a family with more corpus units than this uses its quick corpora in the triples
CROSS_K = 3  # recipes per kind in the cross-family triples (thorough)
FIELD_NAMES = {
    "CdsShortTimestamp": ["ccsds_days", "ms_of_day", "pfield"],
    "SpacePacketHeader": ["ccsds_version", "packet_type", "sec_header_flag", "apid", "seq_flags", "seq_count", "data_len", "packet_len",
                          "packet_id", "psc"],
    "PusTc": ["service", "subservice", "apid", "seq_count", "source_id", "ack_flags", "app_data", "packet_type", "sec_header_flag",
              "seq_flags", "ccsds_version", "data_len", "packet_len", "crc16", "pack(recalc_crc=False)"],
    "PusTcDataFieldHeader": ["service", "subservice", "source_id", "ack_flags", "pus_version"],
    "PusTm": ["service", "subservice", "apid", "seq_count", "message_counter", "dest_id", "time_ref", "ccsds_version", "timestamp",
              "tm_data", "source_data", "packet_type", "sec_header_flag", "seq_flags", "data_len", "packet_len", "crc16", "pack(recalc_crc=False)"],
    "PusTmSecondaryHeader": ["service", "subservice", "message_counter", "dest_id", "time_ref", "timestamp", "pus_version"],
    "Service17Tm": ["service", "subservice", "apid", "seq_count", "message_counter", "dest_id", "time_ref", "ccsds_version", "timestamp",
                    "source_data", "packet_type", "sec_header_flag", "seq_flags", "data_len", "packet_len", "crc16", "pack(recalc_crc=False)"],
    "Service1Tm": ["service", "subservice", "req_id_u32", "req_id", "step_id", "failure_notice", "apid", "seq_count", "dest_id", "time_ref",
                   "ccsds_version", "timestamp", "source_data", "packet_type", "sec_header_flag", "seq_flags", "data_len", "packet_len",
                   "crc16", "pack(recalc_crc=False)"],
    "RequestId": ["u32", "octets", "ccsds_version", "packet_id", "psc"],
    "PacketFieldEnum": ["val", "pfc", "len"],
    "CfdpLv": ["value", "value_len"],
    "CfdpTlv": ["tlv_type", "value"],
    "EntityIdTlv": ["tlv_type", "value"],
    "FlowLabelTlv": ["tlv_type", "value"],
    "MessageToUserTlv": ["tlv_type", "value"],
    "FaultHandlerOverrideTlv": ["tlv_type", "condition_code", "handler_code", "value"],
    "FileStoreRequestTlv": ["tlv_type", "action_code", "first_file_name", "second_file_name"],
    "FileStoreResponseTlv": ["tlv_type", "action_code", "status_code", "first_file_name", "second_file_name", "filestore_msg"],
    "UslpPrimaryHeader": ["kind", "scid", "src_dest", "vcid", "map_id", "frame_len", "bypass", "prot_cmd", "ocf_flag", "vcf_count_len",
                          "vcf_count"],
    "UslpTruncatedPrimaryHeader": ["kind", "scid", "src_dest", "vcid", "map_id"],
    "UslpTransferFrameVar": ["kind", "header", "insert_zone", "tfdf", "ocf", "fecf"],
    "UslpTransferFrameFixed": ["kind", "header", "insert_zone", "tfdf", "ocf", "fecf"],
}

_REG = None


def reg():
    global _REG
    if _REG is None:
        _REG = registry()
    return _REG


def sd_names():
    return [n for n, u in reg().items() if (u.self_delimiting and not u.is_cfdp_pdu) or n in EXTRA_SD]


def pdu_names():
    return [n for n, u in reg().items() if u.is_cfdp_pdu]


def skipped_names():
    return [n for n in reg() if n not in sd_names() and n not in pdu_names()]


def family(name):
    return type(reg()[name]).__module__.rsplit(".", 1)[-1] + ("/hdr" if name == "PduHeader" else "")


def hx(b):
    return "hex:" + bytes(b).hex()


def bt(x):
    return bytes(unhex(x)) if isinstance(x, str) else bytes(x)


def key_of(x):
    return json.dumps(jsonable(x), sort_keys=True)


# ====================================================================================== suffix alphabet
def _seg(a, b, w):
    return a.to_bytes(w, "big") + b.to_bytes(w, "big")


_GEN = {}


def generic_suffixes(tier):
    """[(family, octets)] in a fixed order, simplest first, pairwise different (the first family that produces a
    string keeps it)"""
    if tier in _GEN:
        return _GEN[tier]
    out = []
    for v in range(256):
        out.append(("octet", bytes([v])))
    runs = list(range(2, 17)) + ([17, 24, 31, 32, 33, 40, 48, 63, 64, 255, 256] if tier == "thorough" else [])
    for n in runs:
        out.append(("zeros", bytes(n)))
    for n in runs:
        out.append(("ones", b"\xff" * n))
    # --- octets that look like a TLV
    for t in RT.DEFINED_TYPES:
        out.append(("tlv", RT.tlv(t, b"")))
        out.append(("tlv", RT.tlv(t, b"\x00")))
        out.append(("tlv", RT.tlv(t, b"\x07")))
        out.append(("tlv", RT.tlv(t, bytes(range(0x20, 0x40)))))
        out.append(("tlv-dangling", bytes([t, 1])))
        out.append(("tlv-dangling", bytes([t, 4, 0xAA])))
        out.append(("tlv-dangling", bytes([t, 255]) + bytes(16)))
    from units import cfdp_tlv as UT

    tlv_refs = []
    for name in ("EntityIdTlv", "FlowLabelTlv", "FaultHandlerOverrideTlv", "FileStoreRequestTlv", "FileStoreResponseTlv", "MessageToUserTlv", "CfdpTlv"):
        corp = UT.UNITS[name].corpus(tier)
        for r in (corp if tier == "thorough" else corp[:5]):
            tlv_refs.append(UT.UNITS[name].ref(r))
    for b in tlv_refs:
        out.append(("tlv", b))
    # --- an LV
    for v in (b"", b"a", b"dst.bin", bytes(range(16)), b"\xff" * 255):
        out.append(("lv", RT.lv(v)))
    out.append(("lv-dangling", b"\x05ab"))
    out.append(("lv-dangling", b"\xff" + bytes(7)))
    # --- segment requests (start, end): 2 x 32 bit and 2 x 64 bit
    for w in (4, 8):
        m = (1 << (8 * w)) - 1
        big = int.from_bytes(bytes(range(1, 1 + w)), "big")
        for a, b in ((0, 0), (1, 2), (big, m), (m, m), (0x0102, 0x0304)):
            out.append(("segreq", _seg(a, b, w)))
        out.append(("segreq", _seg(1, 2, w) + _seg(3, 4, w)))
    out.append(("segreq", _seg(1, 2, 4) + b"\x00"))  # one request and a stray octet
    if tier == "thorough":
        for a in D.dedupe(D.walk(8) + list(range(16))):  # every bit of the first octet in both polarities; TLV types, directive codes
            for b in range(256):
                out.append(("octets2", bytes([a, b])))
        for n in range(3, 33):
            for v in D.shaped(n):
                out.append(("shaped", v))
        short = [b for b in tlv_refs if len(b) <= 12][:24]
        for a in short:
            for b in short[:8]:
                out.append(("tlv-pair", a + b))
    seen, uniq = set(), []
    for fam, b in out:
        if b not in seen:
            seen.add(b)
            uniq.append((fam, b))
    _GEN[tier] = uniq
    return uniq


def unit_suffixes(tier, raw, with_self):
    """generic alphabet + the suffixes that depend on the unit: its own CRC-16 (u + crc has zero residue), the
    complemented CRC, a copy of the unit.  [(family, octets, fresh)] - fresh is False for a string the generic
    alphabet already contains (it is not executed again)"""
    gen = generic_suffixes(tier)
    have = _GEN.get(tier + "/set")
    if have is None:
        have = _GEN[tier + "/set"] = {b for _, b in gen}
    out = [(f, b, True) for f, b in gen]
    c = RCRC.crc16(raw)
    extra = [("crc", c.to_bytes(2, "big")), ("crc-wrong", (c ^ 0xFFFF).to_bytes(2, "big"))]
    if with_self:
        extra.append(("self", raw))
    seen = set()
    for f, b in extra:
        out.append((f, b, b not in have and b not in seen))
        seen.add(b)
    return out


# ====================================================================================== helpers on units
def decoders_of(unit):
    return list(unit.decoders())


def pack_of(unit, obj, recipe):
    if hasattr(unit, "pack"):
        return bytes(unit.pack(obj, recipe))
    return bytes(obj.pack())


def exc_s(e):
    return type(e).__name__ + ": " + str(e)[:160]


def diff_names(name, a, b):
    names = FIELD_NAMES.get(name)
    u = reg()[name]
    if names is None and hasattr(u, "field_names"):
        names = list(u.field_names)
    n = max(len(a), len(b))
    if names is None or len(names) != n:
        names = ["#%d" % i for i in range(n)]
    return [names[i] for i in range(n) if i >= len(a) or i >= len(b) or a[i] != b[i]]


class Fail:
    __slots__ = ("clause", "subject", "kind", "observed", "expected")

    def __init__(self, clause, subject, kind, observed=None, expected=None):
        self.clause, self.subject, self.kind, self.observed, self.expected = clause, subject, kind, observed, expected

    def sig(self, feats=()):
        return f"C09.{self.clause}/{self.subject}/{self.kind}" + "".join("/" + f for f in feats)


# ====================================================================================== self-delimiting units
class Base:
    """the unfaulted decode of one (unit, recipe, decoder)"""

    __slots__ = ("raw", "obj", "obs", "len_ok", "pack_ok", "eq_ok", "error", "dlen")

    def __init__(self):
        self.obj = self.obs = self.error = self.dlen = None
        self.len_ok = self.pack_ok = self.eq_ok = False


def sd_base(unit, recipe, fn):
    b = Base()
    b.raw = unit.ref(recipe)
    try:
        b.obj = fn(b.raw, recipe)
        b.obs = unit.observe_decoded(b.obj)  # incl. the stored CRC / pack(recalc_crc=False) of decoded TC/TM
    except Exception as e:
        b.obj = None
        b.error = exc_s(e)
        return b
    try:
        b.dlen = int(unit.declared_len(b.obj))
        b.len_ok = b.dlen == len(b.raw)
    except Exception as e:
        b.dlen = exc_s(e)
    try:
        b.pack_ok = pack_of(unit, b.obj, recipe) == b.raw
    except Exception:
        b.pack_ok = False
    try:
        again = fn(b.raw, recipe)
        b.eq_ok = bool(again == b.obj) and bool(b.obj == again)
    except Exception:
        b.eq_ok = False
    return b


def _fs_len_site(unit, recipe, obj):
    """filestore request / response TLVs inherit common_packet_len(): one site for both classes (as in C08)"""
    if unit.name not in ("FileStoreRequestTlv", "FileStoreResponseTlv"):
        return False
    try:
        want = RT.filestore_common_len(recipe["a"], recipe["n1"].encode("utf-8"), recipe["n2"].encode("utf-8"))
        return obj.common_packet_len() != want
    except Exception:
        return False


def sd_compare(unit, recipe, dname, fn, base, buf, clause="suffix"):
    """decode buf (= base.raw + something) and compare with the unfaulted decode; first disagreement or None"""
    n = len(base.raw)
    try:
        d = fn(buf, recipe)
    except Hang:
        raise
    except Exception as e:
        if isinstance(e, tuple(unit.documented)):
            return Fail(clause, dname, "refused-with-trailing-octets", exc_s(e), "decoded like the unit alone")
        return Fail(clause, dname, "undocumented-exception=" + type(e).__name__, exc_s(e), "decoded like the unit alone")
    try:
        obs = unit.observe_decoded(d)
    except Exception as e:
        return Fail(clause, dname, "fields=unreadable", exc_s(e), base.obs)
    if obs != base.obs:
        return Fail(clause, dname, "fields=" + "+".join(diff_names(unit.name, obs, base.obs)), obs, base.obs)
    try:
        dl = int(unit.declared_len(d))
    except Exception as e:
        return Fail(clause, dname, "declared-length", exc_s(e), n)
    if dl != n:
        if _fs_len_site(unit, recipe, d):
            return Fail("length", "FileStoreRequestBase.common_packet_len", "declared-length", dl, n)
        return Fail("length" if len(buf) == n else clause, dname, "declared-length", dl, n)
    if base.pack_ok:
        try:
            again = pack_of(unit, d, recipe)
        except Exception as e:
            return Fail(clause, dname, "repack", exc_s(e), base.raw)
        if again != base.raw:
            return Fail(clause, dname, "repack", again, base.raw)
    if base.eq_ok:
        try:
            eq = bool(d == base.obj) and bool(base.obj == d)
        except Exception as e:
            return Fail(clause, dname, "not-equal-to-exact-decode", exc_s(e), True)
        if not eq:
            return Fail(clause, dname, "not-equal-to-exact-decode", False, True)
    return None


DEC_SRC = {
    "CdsShortTimestamp.unpack": ("from spacepackets.ccsds.time import CdsShortTimestamp", "CdsShortTimestamp.unpack(B)"),
    "CdsShortTimestamp.read_from_raw": ("from spacepackets.ccsds.time import CdsShortTimestamp",
                                        "(lambda t: (t.read_from_raw(B), t)[1])(CdsShortTimestamp.empty())"),
    "CdsShortTimestamp.unpack_from_raw": ("from spacepackets.ccsds.time import CdsShortTimestamp", "CdsShortTimestamp.unpack_from_raw(B)"),
    "SpacePacketHeader.unpack": ("from spacepackets.ccsds.spacepacket import SpacePacketHeader", "SpacePacketHeader.unpack(B)"),
    "PusTc.unpack": ("from spacepackets.ecss.tc import PusTc", "PusTc.unpack(B)"),
    "PusTcDataFieldHeader.unpack": ("from spacepackets.ecss.tc import PusTcDataFieldHeader", "PusTcDataFieldHeader.unpack(B)"),
    "PusTm.unpack": ("from spacepackets.ecss.tm import PusTm", "PusTm.unpack(B, {ts_len})"),
    "PusTmSecondaryHeader.unpack": ("from spacepackets.ecss.tm import PusTmSecondaryHeader", "PusTmSecondaryHeader.unpack(B, {ts_len})"),
    "Service17Tm.unpack": ("from spacepackets.ecss.pus_17_test import Service17Tm", "Service17Tm.unpack(B, {ts_len})"),
    "Service1Tm.unpack": ("from spacepackets.ecss.pus_1_verification import Service1Tm, UnpackParams",
                          "Service1Tm.unpack(B, UnpackParams({ts_len}, {step_w}, {err_w}))"),
    "Service1Tm.from_tm(PusTm.unpack)": ("from spacepackets.ecss.pus_1_verification import Service1Tm, UnpackParams; from spacepackets.ecss.tm import PusTm",
                                         "Service1Tm.from_tm(PusTm.unpack(B, {ts_len}), UnpackParams({ts_len}, {step_w}, {err_w}))"),
    "RequestId.unpack": ("from spacepackets.ecss.req_id import RequestId", "RequestId.unpack(B)"),
    "PacketFieldEnum.unpack": ("from spacepackets.ecss.fields import PacketFieldEnum", "PacketFieldEnum.unpack(B, 8 * {width})"),
    "PduHeader.unpack": ("from spacepackets.cfdp.pdu.header import PduHeader", "PduHeader.unpack(B)"),
    "CfdpLv.unpack": ("from spacepackets.cfdp.lv import CfdpLv", "CfdpLv.unpack(B)"),
    "PrimaryHeader.unpack": ("from spacepackets.uslp.header import PrimaryHeader", "PrimaryHeader.unpack(B)"),
    "TruncatedPrimaryHeader.unpack": ("from spacepackets.uslp.header import TruncatedPrimaryHeader", "TruncatedPrimaryHeader.unpack(B)"),
}
for _c in ("CfdpTlv", "EntityIdTlv", "FlowLabelTlv", "FaultHandlerOverrideTlv", "FileStoreRequestTlv", "FileStoreResponseTlv", "MessageToUserTlv"):
    DEC_SRC[_c + ".unpack"] = ("from spacepackets.cfdp.tlv import *", _c + ".unpack(B)")
    DEC_SRC[_c + ".from_tlv"] = ("from spacepackets.cfdp.tlv import *", _c + ".from_tlv(CfdpTlv.unpack(B))")


def sd_repro(dname, recipe, raw, s):
    src = DEC_SRC.get(dname)
    if src is None:
        return f"# decoder {dname}: see units/*.py; unit octets {raw.hex()} followed by {s.hex()}"
    try:
        expr = src[1].format(**{k: v for k, v in recipe.items() if isinstance(v, int)})
    except Exception:
        expr = src[1]
    return "\n".join([
        src[0],
        f"u = bytes.fromhex('{raw.hex()}')  # one valid unit (reference octets)",
        f"s = bytes.fromhex('{s.hex()}')  # what follows in the buffer",
        f"dec = lambda B: {expr}",
        "a, b = dec(u), dec(u + s)  # b must be indistinguishable from a and report len(u) octets",
        "print(vars(a) if hasattr(a, '__dict__') else a); print(vars(b) if hasattr(b, '__dict__') else b)",
        "print('reported length', getattr(b, 'packet_len', None), 'unit length', len(u))",
    ])


def sd_case(rec, unit, recipe, dname, fn, base, s, fam, fresh=True):
    """one (recipe, decoder, suffix) case of the suffix clause"""
    rec.case(fresh, ops=5)
    f = sd_compare(unit, recipe, dname, fn, base, base.raw + s)
    if f is None:
        rec.outcome(f"{dname}:same")
        return True
    rec.outcome(f"{dname}:{f.kind}")
    rec.violation(f.sig(), {"clause": "suffix", "unit": unit.name, "recipe": recipe, "dec": dname, "s": hx(s)}, f.observed, f.expected,
                  note=f"suffix family {fam}", repro=sd_repro(dname, recipe, base.raw, s))
    return False


def sd_length_case(rec, unit, recipe, dname, base):
    """the exact buffer: the decoded object must report len(u) (otherwise nothing can be split by reported lengths)"""
    rec.case(True, ops=2)
    if base.obj is None:
        rec.count("baseline_refused_not_judged")
        rec.outcome(f"{dname}:baseline-refused")
        return
    if not base.len_ok:
        if _fs_len_site(unit, recipe, base.obj):
            f = Fail("length", "FileStoreRequestBase.common_packet_len", "declared-length", base.dlen, len(base.raw))
        else:
            f = Fail("length", dname, "declared-length", base.dlen, len(base.raw))
        rec.outcome(f"{dname}:declared-length")
        rec.violation(f.sig(), {"clause": "suffix", "unit": unit.name, "recipe": recipe, "dec": dname, "s": hx(b"")}, f.observed, f.expected,
                      repro=sd_repro(dname, recipe, base.raw, b""))


def run_suffix_sd(rec, name, recipes, tier):
    unit = reg()[name]
    for recipe in recipes:
        for dname, fn in decoders_of(unit):
            base = sd_base(unit, recipe, fn)
            sd_length_case(rec, unit, recipe, dname, base)
            if base.obj is None:
                continue
            cur = None
            try:
                with Watchdog(300.0):
                    for fam, s, fresh in unit_suffixes(tier, base.raw, with_self=False):
                        if not fresh:
                            rec.count("suffix_duplicates_not_executed")
                            continue
                        cur = s
                        sd_case(rec, unit, recipe, dname, fn, base, s, fam)
                        rec.count("suffix/" + fam)
                        rec.count("decoder/" + dname)
            except Hang:
                rec.violation(f"C09.suffix/{dname}/hang", {"clause": "suffix", "unit": name, "recipe": recipe, "dec": dname, "s": hx(cur or b"")},
                              "no return within the shard's budget", "returns")
        rec.count("recipes/" + name)
    if recipes and name in SAMPLE_UNITS and recipes[0] == unit.corpus(tier)[0]:
        r = recipes[0]
        raw = unit.ref(r)
        rec.sample({"unit": name, "recipe": r, "octets": raw[:64], "suffix_example": b"\x06\x01\x07",
                    "expected": {"observe": jsonable(unit.expected(r)), "reported_length": len(raw)}}, limit=1)


# ====================================================================================== split clause
_CORPUS = {}


def sd_corpus(tier):
    """[(unit name, recipe index, recipe)] of every self-delimiting kind, registry order"""
    if tier not in _CORPUS:
        out = []
        for n in sd_names():
            for i, r in enumerate(reg()[n].corpus(tier)):
                out.append((n, i, r))
        _CORPUS[tier] = out
    return _CORPUS[tier]


class Elem:
    """one corpus unit prepared for the split clause: octets and the unfaulted decode through the first decoder"""

    __slots__ = ("name", "idx", "recipe", "unit", "dname", "fn", "base")

    def __init__(self, name, idx, recipe, dec_index=0):
        self.name, self.idx, self.recipe = name, idx, recipe
        self.unit = reg()[name]
        self.dname, self.fn = decoders_of(self.unit)[dec_index]
        self.base = sd_base(self.unit, recipe, self.fn)


def split_eval(elems):
    """concatenate, split purely by reported lengths; first disagreement or None"""
    stream = b"".join(e.base.raw for e in elems)
    pos = 0
    for k, e in enumerate(elems):
        if e.base.obj is None or not e.base.len_ok:
            return "skip"  # the unit alone is refused / mis-measured: reported by the suffix clause (length), not judged here
        buf = stream[pos:]
        f = sd_compare(e.unit, e.recipe, e.dname, e.fn, e.base, buf, clause="suffix")
        if f is not None:
            f.observed = {"position": k, "observed": f.observed}
            return f
        n = len(e.base.raw)
        if stream[pos:pos + n] != e.base.raw:
            return Fail("split", e.dname, "piece-differs", stream[pos:pos + n], e.base.raw)
        pos += n  # == the length the decoded object reported (checked by sd_compare)
    if pos != len(stream):
        return Fail("split", elems[0].dname, "octets-left-over", pos, len(stream))
    return None


def split_case(rec, elems, fresh=True):
    rec.case(fresh, ops=5 * len(elems))
    f = split_eval(elems)
    if f is None:
        return True
    if f == "skip":
        rec.count("split_skipped_unit_alone_not_decodable")
        return True
    case = {"clause": "split", "parts": [[e.name, e.recipe] for e in elems], "dec": elems[0].dname}
    rec.outcome(f"split:{f.subject}:{f.kind}")
    rec.violation(f.sig(), case, f.observed, f.expected, note="units back to back, split by reported lengths",
                  repro=sd_repro(elems[0].dname, elems[0].recipe, elems[0].base.raw, b"".join(e.base.raw for e in elems[1:])))
    return False


def run_split(rec, item):
    tier = item["tier"]
    corpus = sd_corpus(tier)
    seconds = [Elem(n, i, r) for n, i, r in corpus]
    name = item["unit"]
    unit = reg()[name]
    recs = unit.corpus(tier)[item["lo"]:item["hi"]]
    for off, recipe in enumerate(recs):
        for di in range(len(decoders_of(unit))):
            first = Elem(name, item["lo"] + off, recipe, di)
            try:
                with Watchdog(600.0):
                    for sec in seconds:
                        split_case(rec, [first, sec])
            except Hang:
                rec.violation(f"C09.split/{first.dname}/hang", {"clause": "split", "parts": [[name, recipe]], "dec": first.dname}, "no return", "returns")
            rec.count("split_pairs", len(seconds))
            rec.count("split_first/" + first.dname, len(seconds))
    rec.outcome("split:same")
    if recs and item["lo"] == 0 and name == "PusTc":
        a, b = Elem(name, 0, recs[0]), seconds[-1]
        rec.sample({"clause": "split", "stream": (a.base.raw + b.base.raw)[:96], "expected_pieces": [a.base.raw[:64], b.base.raw[:64]],
                    "units": [a.name, b.name]}, limit=1)


def triple_members(tier, fam):
    """elements of the triples of one family ('x' = cross-family: the first CROSS_K recipes of every kind)"""
    corpus = sd_corpus(tier)
    if fam == "x":
        return [(n, i, r) for n, i, r in corpus if i < CROSS_K]
    members = [(n, i, r) for n, i, r in corpus if family(n) == fam]
    if len(members) > TRIPLE_CAP:  # a^3 grows fast: the two big families (PUS, TLV) take their quick corpora for the triples
        members = [(n, i, r) for n, i, r in sd_corpus("quick") if family(n) == fam]
    return members


def run_split3(rec, item):
    tier, fam = item["tier"], item["fam"]
    members = [Elem(n, i, r) for n, i, r in triple_members(tier, fam)]
    for a in members[item["lo"]:item["hi"]]:
        n = 0
        try:
            with Watchdog(1200.0):
                for b in members:
                    for c in members:
                        # a cross-family triple whose three units belong to one family is part of that family's shard
                        fresh = not (fam == "x" and family(a.name) == family(b.name) == family(c.name))
                        if not fresh:
                            rec.count("split_triples_duplicates_not_executed")
                            continue
                        split_case(rec, [a, b, c])
                        n += 1
        except Hang:
            rec.violation(f"C09.split/{a.dname}/hang", {"clause": "split", "parts": [[a.name, a.recipe]], "dec": a.dname}, "no return", "returns")
        rec.count("split_triples/" + fam, n)
    rec.outcome("split3:same")


# ====================================================================================== CFDP PDUs
def pdu_subject(unit, via):
    return unit.kind + ".unpack" if via == 0 else f"PduFactory.from_raw({unit.kind})"


class PduBase:
    __slots__ = ("raw", "crc", "obs_e", "from_twin", "len_ok", "pack_ok", "exact", "eq_ok", "twin_error")


def pdu_base(unit, recipe, via):
    """the unfaulted decode of a PDU recipe through one entry point: the exact decode of the CRC-less twin"""
    from units import cfdp_pdu as UP

    r = UP.norm(recipe)
    fn = decoders_of(unit)[via][1]
    b = PduBase()
    b.raw = unit.ref(recipe)
    b.crc = int(r["cfg"]["crc"])
    twin = {"cfg": dict(r["cfg"], crc=0), "params": r["params"]}
    traw = unit.ref(twin) if b.crc else b.raw
    b.len_ok = b.pack_ok = b.eq_ok = False
    b.exact = None
    b.twin_error = None
    try:
        t = fn(traw, twin)
        if type(t) is not unit.cls():
            raise TypeError("twin decoded to " + type(t).__name__)
        obs = list(unit.observe(t))
        obs[unit.field_names.index("crc_flag")] = b.crc
        b.obs_e = tuple(obs)
        b.from_twin = True
        try:
            b.len_ok = int(t.packet_len) == len(traw)
        except Exception:
            pass
        try:
            b.pack_ok = bytes(t.pack()) == traw
        except Exception:
            pass
    except Exception as e:
        b.twin_error = exc_s(e)
        b.obs_e = unit.expected(recipe)  # the twin itself is refused (C06 / C07): fall back to the reference observation
        b.from_twin = False
    try:
        b.exact = fn(b.raw, recipe)
        again = fn(b.raw, recipe)
        b.eq_ok = bool(again == b.exact) and bool(b.exact == again)
    except Exception:
        b.exact = None
    return b


def pdu_eval(unit, recipe, s, via, base):
    """one (PDU recipe, suffix, entry point): None (equal or documented refusal) or the disagreement"""
    subject = pdu_subject(unit, via)
    fn = decoders_of(unit)[via][1]
    clause = "suffix" if s else "crc-trailer"
    try:
        d = fn(base.raw + s, recipe)
    except Hang:
        raise
    except Exception as e:
        doc = isinstance(e, tuple(unit.documented))
        if not s:
            if base.crc and base.from_twin:
                return Fail(clause, subject, "refused" if doc else "undocumented-exception=" + type(e).__name__, exc_s(e),
                            "the parameters of the same PDU without CRC")
            return "baseline-refused"  # the PDU alone, no trailer involved: C06 / C07 / C10
        if doc:
            return "refused:" + type(e).__name__
        return Fail(clause, subject, "undocumented-exception=" + type(e).__name__, exc_s(e), "exact decode or documented error")
    if type(d) is not unit.cls():
        return Fail(clause, subject, "wrong-class", type(d).__name__, unit.kind)
    try:
        obs = unit.observe(d)
    except Exception as e:
        return Fail(clause, subject, "leak=unreadable", exc_s(e), base.obs_e)
    if obs != base.obs_e:
        return Fail(clause, subject, "leak=" + "+".join(diff_names(unit.name, obs, base.obs_e)), obs, base.obs_e)
    if base.len_ok:
        try:
            n = int(d.packet_len)
        except Exception as e:
            return Fail(clause, subject, "declared-length", exc_s(e), len(base.raw))
        if n != len(base.raw):
            return Fail(clause, subject, "declared-length", n, len(base.raw))
        if via == 1:  # the holder the factory hands out reports a length of its own: a stream of PDUs is split by it
            try:
                from units import cfdp_pdu as UP
                hn = int(UP.L.PduFactory.from_raw_to_holder(base.raw + s).packet_len)
            except Exception as e:
                return Fail(clause, "PduFactory.from_raw_to_holder", "declared-length", exc_s(e), len(base.raw))
            if hn != len(base.raw):
                return Fail(clause, "PduFactory.from_raw_to_holder", "declared-length", hn, len(base.raw))
    if base.pack_ok:
        try:
            again = bytes(d.pack())
        except Exception as e:
            return Fail(clause, subject, "repack", exc_s(e), base.raw)
        if again != base.raw:
            return Fail(clause, subject, "repack", again, base.raw)
    if s and base.exact is not None and base.eq_ok:
        try:
            eq = bool(d == base.exact) and bool(base.exact == d)
        except Exception as e:
            return Fail(clause, subject, "not-equal-to-exact-decode", exc_s(e), True)
        if not eq:
            return Fail(clause, subject, "not-equal-to-exact-decode", False, True)
    return None


_BASE_MEMO = {}


def _memo_base(unit, recipe, via):
    """pdu_base is a function of (unit, recipe, entry point) only: cached for the reduced recipes of the minimisation"""
    k = (unit.name, key_of(recipe), via)
    b = _BASE_MEMO.get(k)
    if b is None:
        if len(_BASE_MEMO) > 4000:
            _BASE_MEMO.clear()
        b = _BASE_MEMO[k] = pdu_base(unit, recipe, via)
    return b


def pdu_features(unit, recipe, s, via, fail):
    """delta-debugging over the two configuration bits DESIGN.md names (CRC flag, large file): a bit stays in the
    signature only if the same disagreement disappears when it is reset"""
    from units import cfdp_pdu as UP

    feats = []
    cur = UP.norm(recipe)
    for key, label in (("cfg.large", "large=1"), ("cfg.crc", "crc=1")):
        k = key[4:]
        if not cur["cfg"].get(k):
            continue
        if key == "cfg.crc" and not s:
            continue  # the crc-trailer clause is about CRC-flagged PDUs by definition
        red = unit.reset(cur, key)
        f2 = None
        if red is not None:
            try:
                f2 = pdu_eval(unit, red, s, via, _memo_base(unit, red, via))
            except Hang:
                raise
            except Exception:
                f2 = None
        if isinstance(f2, Fail) and (f2.clause, f2.subject, f2.kind) == (fail.clause, fail.subject, fail.kind):
            cur = red
        else:
            feats.append(label)
    return sorted(feats)


def pdu_repro(unit, via, raw, s):
    call = f"{unit.kind}.unpack" if via == 0 else "PduFactory.from_raw"
    return "\n".join([
        "from spacepackets.cfdp.pdu import *",
        f"u = bytes.fromhex('{raw.hex()}')  # one complete {unit.kind} (reference octets per CCSDS 727.0-B-5)",
        f"s = bytes.fromhex('{s.hex()}')  # what follows in the buffer",
        f"p = {call}(u + s)  # must carry exactly the parameters encoded in u (or raise a documented error)",
        "print(vars(p)); assert bytes(p.pack()) == u",
    ])


def pdu_case(rec, unit, recipe, s, fam, bases, fresh=True):
    """one (recipe, suffix) through the class decoder and through the factory.  A disagreement of the factory is
    reported under its own subject only when the class decoder does not show the same one (same code site)."""
    fails = []
    for via in (0, 1):
        dname = decoders_of(unit)[via][0]
        trivial = (not s) and not bases[via].crc  # the baseline itself
        rec.case(fresh and not trivial, ops=5)
        rec.count("decoder/" + dname)
        r = pdu_eval(unit, recipe, s, via, bases[via])
        if r is None:
            rec.outcome(f"{pdu_subject(unit, via)}:same")
        elif isinstance(r, str):
            rec.outcome(f"{pdu_subject(unit, via)}:{r}")
            rec.count("pdu_documented_refusals" if r.startswith("refused") else "baseline_refused_not_judged")
        else:
            rec.outcome(f"{pdu_subject(unit, via)}:{r.kind}")
        fails.append(r if isinstance(r, Fail) else None)
    ok = True
    for via, f in enumerate(fails):
        if f is None:
            continue
        ok = False
        if via == 1 and fails[0] is not None and (fails[0].clause, fails[0].kind) == (f.clause, f.kind):
            rec.viol_count += 1
            rec.count("factory_shows_the_class_decoder_disagreement")
            continue
        feats = pdu_features(unit, recipe, s, via, f)
        rec.violation(f.sig(feats), {"clause": "pdu", "unit": unit.name, "recipe": recipe, "s": hx(s)}, f.observed, f.expected,
                      note=f"suffix family {fam}; entry point {decoders_of(unit)[via][0]}", repro=pdu_repro(unit, via, bases[via].raw, s))
    return ok


_PDU_REFS = {}


def pdu_back_to_back(tier):
    """reference octets of every PDU of the corpora of all eight kinds, de-duplicated"""
    if tier not in _PDU_REFS:
        out, seen = [], set()
        for n in pdu_names():
            u = reg()[n]
            for r in u.corpus(tier):
                b = u.ref(r)
                if b not in seen:
                    seen.add(b)
                    out.append(b)
        _PDU_REFS[tier] = out
    return _PDU_REFS[tier]


def run_suffix_pdu(rec, name, recipes, tier):
    unit = reg()[name]
    others = pdu_back_to_back(tier)
    for recipe in recipes:
        bases = [pdu_base(unit, recipe, 0), pdu_base(unit, recipe, 1)]
        raw = bases[0].raw
        if not bases[0].from_twin:
            rec.count("pdu_twin_refused_reference_observation_used")
        cur = None
        try:
            with Watchdog(600.0):
                cur = b""
                pdu_case(rec, unit, recipe, b"", "empty", bases)
                rec.count("suffix/empty")
                done = {b""}
                for fam, s, fresh in unit_suffixes(tier, raw, with_self=True):
                    if not fresh or s in done:
                        rec.count("suffix_duplicates_not_executed")
                        continue
                    done.add(s)
                    cur = s
                    pdu_case(rec, unit, recipe, s, fam, bases)
                    rec.count("suffix/" + fam)
                for s in others:
                    if s in done:
                        rec.count("suffix_duplicates_not_executed")
                        continue
                    done.add(s)
                    cur = s
                    pdu_case(rec, unit, recipe, s, "unit", bases)
                    rec.count("suffix/unit")
        except Hang:
            rec.violation(f"C09.suffix/{name}.unpack/hang", {"clause": "pdu", "unit": name, "recipe": recipe, "s": hx(cur or b"")},
                          "no return within the shard's budget", "returns")
        rec.count("recipes/" + name)
    if recipes and name in SAMPLE_UNITS and recipes[0] == unit.corpus(tier)[0]:
        r = recipes[-1]
        raw = unit.ref(r)
        rec.sample({"unit": name, "recipe": r, "octets": raw[:96], "suffix_example": bytes(8),
                    "expected": {"observe": jsonable(unit.expected(r)), "or": "documented refusal"}}, limit=1)


# ====================================================================================== shards / replay
def shards(tier):
    items = []
    per = 4 if tier == "quick" else 3
    for n in sd_names():
        k = len(reg()[n].corpus(tier))
        for lo in range(0, k, per):
            items.append({"clause": "suffix", "unit": n, "lo": lo, "hi": min(k, lo + per), "tier": tier})
    per = 4 if tier == "quick" else 2
    for n in pdu_names():
        k = len(reg()[n].corpus(tier))
        for lo in range(0, k, per):
            items.append({"clause": "pdu", "unit": n, "lo": lo, "hi": min(k, lo + per), "tier": tier})
    for n in sd_names():
        k = len(reg()[n].corpus(tier))
        for lo in range(0, k, 8):
            items.append({"clause": "split", "unit": n, "lo": lo, "hi": min(k, lo + 8), "tier": tier})
    if tier == "thorough":
        fams = D.dedupe([family(n) for n in sd_names()]) + ["x"]
        for fam in fams:
            k = len(triple_members(tier, fam))
            step = max(1, min(4, 40000 // max(1, k * k)))
            for lo in range(0, k, step):
                items.append({"clause": "split3", "fam": fam, "lo": lo, "hi": min(k, lo + step), "tier": tier})
    return items


def run_shard(item):
    rec = Rec(PROPERTY, item)
    tier = item["tier"]
    if item["clause"] == "suffix":
        run_suffix_sd(rec, item["unit"], reg()[item["unit"]].corpus(tier)[item["lo"]:item["hi"]], tier)
    elif item["clause"] == "pdu":
        run_suffix_pdu(rec, item["unit"], reg()[item["unit"]].corpus(tier)[item["lo"]:item["hi"]], tier)
    elif item["clause"] == "split":
        run_split(rec, item)
    elif item["clause"] == "split3":
        run_split3(rec, item)
    else:
        raise ValueError(item)
    return rec.result()


def replay(case):
    rec = Rec(PROPERTY, "replay")
    clause = case["clause"]
    try:
        with Watchdog(60.0):
            if clause == "suffix":
                unit = reg()[case["unit"]]
                dname, fn = next((n, f) for n, f in decoders_of(unit) if n == case["dec"])
                base = sd_base(unit, case["recipe"], fn)
                s = bt(case["s"])
                if not s:
                    sd_length_case(rec, unit, case["recipe"], dname, base)
                elif base.obj is not None:
                    sd_case(rec, unit, case["recipe"], dname, fn, base, s, "replay")
            elif clause == "pdu":
                unit = reg()[case["unit"]]
                bases = [pdu_base(unit, case["recipe"], 0), pdu_base(unit, case["recipe"], 1)]
                pdu_case(rec, unit, case["recipe"], bt(case["s"]), "replay", bases)
            elif clause == "split":
                elems = []
                for k, (n, r) in enumerate(case["parts"]):
                    di = 0
                    if k == 0:
                        di = [d for d, _ in decoders_of(reg()[n])].index(case["dec"])
                    elems.append(Elem(n, -1, r, di))
                split_case(rec, elems)
            else:
                raise ValueError("unknown case clause %r" % (clause,))
    except Hang:
        sub = case.get("dec") or (case["unit"] + ".unpack")
        rec.violation(f"C09.{'split' if clause == 'split' else 'suffix'}/{sub}/hang", case, "no return within 60 s", "returns")
    return rec.result()


def finalize(tier, agg):
    c = agg["counters"]
    gen = generic_suffixes(tier)
    fams = {}
    for f, _ in gen:
        fams[f] = fams.get(f, 0) + 1
    return {
        "units_judged_self_delimiting": sd_names(),
        "units_judged_cfdp_pdu": pdu_names(),
        "units_not_judged_no_own_length": skipped_names(),
        "recipes_per_kind": {k[8:]: v for k, v in sorted(c.items()) if k.startswith("recipes/")},
        "cases_per_entry_point": {k[8:]: v for k, v in sorted(c.items()) if k.startswith("decoder/")},
        "cases_per_suffix_family": {k[7:]: v for k, v in sorted(c.items()) if k.startswith("suffix/")},
        "generic_suffix_alphabet": {"size": len(gen), "per_family": fams, "longest": max(len(b) for _, b in gen)},
        "back_to_back_pdus_used_as_suffix": len(pdu_back_to_back(tier)),
        "split_pairs_executed": c.get("split_pairs", 0),
        "split_triples_executed": sum(v for k, v in c.items() if k.startswith("split_triples/")),
        "pdu_documented_refusals": c.get("pdu_documented_refusals", 0),
        "baseline_refused_not_judged": c.get("baseline_refused_not_judged", 0),
        "bounds_completed": BOUNDS[tier],
    }
