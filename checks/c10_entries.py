"""C10 - table of public decode entry points, their corpora and their fault helpers.

An Entry is one public decode entry point in one calling convention:

  key      unique id (travels in work items and replay files)
  name     subject of the violation signature, e.g. "PusTc.unpack", "TransferFrame.unpack(var)"
  bind     bind(recipe) -> f(octets): the call with the decoder configuration that matches the recipe
           (timestamp length, field widths, managed parameters); recipes are plain data
  corpus   corpus(tier) -> [(recipe, valid octets)]   reference-encoded (ref/), never library-encoded
  prefix   True: the corpus units are self-delimiting for this entry point and it decodes whole units, so the
           prefix clause applies (every strict prefix must be refused)
  steer    True: the first octets steer control flow (thorough: all strings of length <= 3)
  family   which length field `shorten` rewrites ("sp", "pdu", "tlv", "lv", "uslp", None)
  crc      crc(recipe) -> bool: the unit ends in a CRC-16 that `recrc` recomputes
  repro    python source template ({b} = the octets as a bytes literal, {r[..]} recipe items)

Everything listed by unit.decoders() of units.base.registry() is an entry (the USLP frame / data field decoders are
re-bound here with the managed parameters computed once per recipe instead of once per call - same call, same
arguments), plus the public entry points the registry does not list."""

from __future__ import annotations

from mc.rec import unhex
from ref import cfdp as RC
from ref import crc16 as CRC
from ref import pus as RP
from ref import uslp as RU
from units.base import registry

SMALL_CFG_CAP = {"quick": 6, "thorough": 16}


class Entry:
    def __init__(self, key, name, bind, corpus, prefix, steer=False, family=None, crc=None, repro=None, cfgkey=None,
                 small=None, unit=None, heavy=False, do_small=True, steer_small=None, wrap=None):
        self.key, self.name, self.bind, self._corpus, self.prefix, self.steer = key, name, bind, corpus, prefix, steer
        self.family, self._crc, self.repro, self.cfgkey, self._small, self.unit = family, crc, repro, cfgkey, small, unit
        self.heavy = heavy  # the corpus is a product (unit x managed parameters): substitution region reduced in quick
        self.do_small = do_small  # False: another entry with the same call and configurations runs the small strings
        self._steer_small = steer_small
        self.wrap = wrap  # wrap(recipe, s) -> octets: the enumerated string s is the payload of a length-consistent, CRC-valid unit
        self.shared = False  # the name is shared by several corpora: violations of the prefix clause name the unit
        self._cache = {}

    def steer_cfgs(self, tier):
        """configurations under which the strings of length 3 are enumerated (thorough, steering entry points)"""
        cfgs = self.small_cfgs(tier)
        return [c for c in cfgs if self._steer_small(c)] if self._steer_small else cfgs

    def crc(self, recipe):
        return bool(self._crc(recipe)) if self._crc else False

    def corpus(self, tier):
        """[(recipe, raw)] without duplicates (same octets under the same decoder configuration)"""
        if tier not in self._cache:
            seen, out = set(), []
            for recipe, raw in self._corpus(tier):
                k = (bytes(raw), repr(self.cfgkey(recipe)) if self.cfgkey else None)
                if k not in seen:
                    seen.add(k)
                    out.append((recipe, bytes(raw)))
            self._cache[tier] = out
        return self._cache[tier]

    def small_cfgs(self, tier):
        """recipes whose decoder configurations the small-string enumeration runs under"""
        if self._small is not None:
            return self._small(tier)
        if self.cfgkey is None:
            c = self.corpus(tier)
            return [c[0][0]] if c else [None]
        seen, out = set(), []
        for recipe, _ in self.corpus(tier):
            k = repr(self.cfgkey(recipe))
            if k not in seen:
                seen.add(k)
                out.append(recipe)
        return out[:SMALL_CFG_CAP[tier]]


# ------------------------------------------------------------------------------------------------ fault helpers
def recrc(buf: bytes) -> bytes:
    """the last two octets replaced by the CRC-16 of what precedes them (reference CRC, not crcmod)"""
    return CRC.with_crc(buf[:-2]) if len(buf) >= 2 else buf


def shorten_range(family, raw):
    """lengths L < len(raw) for which `shorten` yields a unit that consistently claims to be L octets long"""
    n = len(raw)
    lo = {"sp": 7, "tlv": 2, "lv": 1, "uslp": 7}.get(family)
    if family == "pdu":
        lo = RC.header_len(raw)
    return range(lo, n) if lo is not None else range(0)


def shorten(family, raw, L, crc):
    """raw cut to L octets with the length field rewritten to say L (and the trailing CRC recomputed): the
    length-consistent diagonal of substitute-then-truncate.  Not a prefix of a valid unit: escape clause only."""
    b = bytearray(raw[:L])
    if family == "sp":
        b[4:6] = (L - 7).to_bytes(2, "big")
    elif family == "pdu":
        b[1:3] = (L - RC.header_len(raw)).to_bytes(2, "big")
    elif family == "tlv":
        b[1] = L - 2
    elif family == "lv":
        b[0] = L - 1
    elif family == "uslp":
        b[4:6] = (L - 1).to_bytes(2, "big")
    b = bytes(b)
    return recrc(b) if crc else b


# ---------------------------------------------------------------------------------------------------- registry
def _cfgkeys():
    return {
        "PusTm": lambda r: r["ts_len"], "Service17Tm": lambda r: r["ts_len"], "PusTmSecondaryHeader": lambda r: r["ts_len"],
        "Service1Tm": lambda r: (r["ts_len"], r["step_w"], r["err_w"]), "FailureNotice": lambda r: r["err_w"],
        "PacketFieldEnum": lambda r: r["width"],
    }


FAMILY = {"PusTc": "sp", "PusTm": "sp", "Service17Tm": "sp", "Service1Tm": "sp", "CfdpLv": "lv", "CfdpTlv": "tlv", "EntityIdTlv": "tlv",
          "FlowLabelTlv": "tlv", "FaultHandlerOverrideTlv": "tlv", "FileStoreRequestTlv": "tlv", "FileStoreResponseTlv": "tlv",
          "MessageToUserTlv": "tlv", "UslpTransferFrameVar": "uslp", "UslpTransferFrameFixed": "uslp"}
for _k in RC.KINDS:
    FAMILY[_k] = "pdu"

STEER = {"CfdpLv.unpack", "CfdpTlv.unpack", "EntityIdTlv.unpack", "FlowLabelTlv.unpack", "FaultHandlerOverrideTlv.unpack",
         "FileStoreRequestTlv.unpack", "FileStoreResponseTlv.unpack", "MessageToUserTlv.unpack", "FaultHandlerOverrideTlv.from_tlv",
         "FileStoreRequestTlv.from_tlv", "FileStoreResponseTlv.from_tlv", "EntityIdTlv.from_tlv"}

_IMPORTS = {
    "sp": "from spacepackets.ccsds.spacepacket import *",
    "ecss": "from spacepackets.ecss import *; from spacepackets.ecss.tc import *; from spacepackets.ecss.tm import *\n"
            "from spacepackets.ecss.pus_1_verification import *; from spacepackets.ecss.pus_17_test import Service17Tm",
    "cds": "from spacepackets.ccsds.time import CdsShortTimestamp",
    "cfdp": "from spacepackets.cfdp import *; from spacepackets.cfdp.tlv import *; from spacepackets.cfdp.pdu import *\n"
            "from spacepackets.cfdp.pdu.header import PduHeader, AbstractPduBase; from spacepackets.cfdp.pdu.file_directive import FileDirectivePduBase",
    "uslp": "from spacepackets.uslp.header import *; from spacepackets.uslp.frame import *",
}

# repro templates of the registry decoders: (import group, expression); {b} octets literal, {r} the recipe
REPRO = {
    "SpacePacketHeader.unpack": ("sp", "SpacePacketHeader.unpack({b})"),
    "PusTc.unpack": ("ecss", "PusTc.unpack({b})"),
    "PusTcDataFieldHeader.unpack": ("ecss", "PusTcDataFieldHeader.unpack({b})"),
    "PusTm.unpack": ("ecss", "PusTm.unpack({b}, {r[ts_len]})"),
    "PusTmSecondaryHeader.unpack": ("ecss", "PusTmSecondaryHeader.unpack({b}, {r[ts_len]})"),
    "Service17Tm.unpack": ("ecss", "Service17Tm.unpack({b}, {r[ts_len]})"),
    "Service1Tm.unpack": ("ecss", "Service1Tm.unpack({b}, UnpackParams({r[ts_len]}, {r[step_w]}, {r[err_w]}))"),
    "Service1Tm.from_tm(PusTm.unpack)": ("ecss", "Service1Tm.from_tm(PusTm.unpack({b}, {r[ts_len]}), UnpackParams({r[ts_len]}, {r[step_w]}, {r[err_w]}))"),
    "FailureNotice.unpack": ("ecss", "FailureNotice.unpack({b}, {r[err_w]})"),
    "RequestId.unpack": ("ecss", "RequestId.unpack({b})"),
    "PacketFieldEnum.unpack": ("ecss", "PacketFieldEnum.unpack({b}, 8 * {r[width]})"),
    "CdsShortTimestamp.unpack": ("cds", "CdsShortTimestamp.unpack({b})"),
    "CdsShortTimestamp.read_from_raw": ("cds", "CdsShortTimestamp.empty().read_from_raw({b})"),
    "CdsShortTimestamp.unpack_from_raw": ("cds", "CdsShortTimestamp.unpack_from_raw({b})"),
    "PduHeader.unpack": ("cfdp", "PduHeader.unpack({b})"),
    "PduFactory.from_raw": ("cfdp", "PduFactory.from_raw({b})"),
    "CfdpLv.unpack": ("cfdp", "CfdpLv.unpack({b})"),
    "PrimaryHeader.unpack": ("uslp", "PrimaryHeader.unpack({b})"),
    "TruncatedPrimaryHeader.unpack": ("uslp", "TruncatedPrimaryHeader.unpack({b})"),
    "determine_header_type+unpack": ("uslp", "(TruncatedPrimaryHeader if determine_header_type({b}) == HeaderType.TRUNCATED else PrimaryHeader).unpack({b})"),
}
for _k in RC.KINDS:
    REPRO[_k + ".unpack"] = ("cfdp", _k + ".unpack({b})")
for _k in ("CfdpTlv", "EntityIdTlv", "FlowLabelTlv", "FaultHandlerOverrideTlv", "FileStoreRequestTlv", "FileStoreResponseTlv", "MessageToUserTlv"):
    REPRO[_k + ".unpack"] = ("cfdp", _k + ".unpack({b})")
    REPRO[_k + ".from_tlv"] = ("cfdp", _k + ".from_tlv(CfdpTlv.unpack({b}))")


def repro_source(entry, recipe, buf):
    """self-contained python source that makes the one call (only `import spacepackets`)"""
    if entry.repro is None:
        return None
    lit = "bytes.fromhex('%s')" % bytes(buf).hex()
    try:
        if callable(entry.repro):
            return entry.repro(recipe, lit)
        grp, expr = entry.repro
        return _IMPORTS[grp] + "\n" + expr.format(b=lit, r=recipe or {})
    except Exception:  # a repro is a convenience, never a reason to fail
        return None


def _unit_corpus(unit, stride_to=None):
    """stride_to: None = the whole corpus; n = an evenly spread sub-corpus of n units; {"quick": n} = per tier"""

    def corpus(tier):
        rs = unit.corpus(tier)
        n = stride_to.get(tier) if isinstance(stride_to, dict) else stride_to
        if n and len(rs) > n:  # evenly spread sub-corpus, deterministic
            rs = [rs[i * len(rs) // n] for i in range(n)]
        return [(r, unit.ref(r)) for r in rs]

    return corpus


def _bind2(fn):
    return lambda recipe: (lambda b: fn(b, recipe))


# --------------------------------------------------------------------------------------------------- USLP binds
def _uslp():
    import spacepackets.uslp.frame as f
    import spacepackets.uslp.header as h

    return f, h


def frame_props(ft, n, iz, fecf, tlen=None):
    """managed-parameter object: ft 'fixed'|'var', n = fixed length (fixed) / truncated frame length (var)"""
    f, _ = _uslp()
    kw = dict(has_insert_zone=iz is not None, has_fecf=fecf is not None, insert_zone_len=iz, fecf_len=fecf)
    if ft == "fixed":
        return f.FrameType.FIXED, f.FixedFrameProperties(fixed_len=n, **kw)
    return f.FrameType.VARIABLE, f.VarFrameProperties(truncated_frame_len=n, **kw)


def _frame_entries(unit):
    """TransferFrame.unpack with the managed parameters that describe the recipe's frame (what unit.decoders() does,
    with the properties built once per recipe)"""
    from units import uslp as UU

    kind = unit.kind

    def mp_of(recipe):
        _, iz, _, fecf = UU.frame_parts(recipe)
        n = len(unit.ref(recipe))
        return ["fixed" if kind == "fixed" else "var", n if kind != "var" else 12, None if iz is None else len(iz), None if fecf is None else len(fecf)]

    def bind(recipe):
        f, _ = _uslp()
        ft, props = frame_props(*mp_of(recipe))
        unpack = f.TransferFrame.unpack
        return lambda b: unpack(raw_frame=b, frame_type=ft, frame_properties=props)

    return bind, (lambda r: mp_of(r)[:1] + mp_of(r)[2:]), mp_of


MP_ZONES = [(iz, fecf) for iz in (None, 1, 4) for fecf in (None, 2, 4)]


def mp_sets(n):
    """the managed-parameter sets a frame of n octets is decoded under: frame type x insert zone {absent,1,4} x
    FECF {absent,2,4} with the managed length equal to the buffer (18), plus fixed lengths n-1 and n+1"""
    out = [[ft, n, iz, fecf] for ft in ("var", "fixed") for iz, fecf in MP_ZONES]
    out += [["fixed", max(n - 1, 0), None, None], ["fixed", n + 1, None, None]]
    return out


def _mp_entry(ft):
    """TransferFrame.unpack of the frame corpora under every managed-parameter set of frame type ft (matching and
    mismatching): escape clause only"""
    from units import uslp as UU

    names = ("UslpTransferFrameVar", "UslpTransferFrameFixed", "UslpTransferFrameTruncated")

    def corpus(tier):
        out = []
        per = 4 if tier == "quick" else 8
        for un in names:
            unit = UU.UNITS[un]
            rs = unit.corpus(tier)
            rs = [rs[i * len(rs) // per] for i in range(per)] if len(rs) > per else rs
            for r in rs:
                raw = unit.ref(r)
                if len(raw) > 80:
                    continue
                for mp in mp_sets(len(raw)):
                    if mp[0] == ft:
                        out.append(({"mp": mp, "of": un}, raw))
        return out

    def small(tier):
        return [{"mp": mp, "of": None} for mp in mp_sets(7) if mp[0] == ft]

    def bind(recipe):
        f, _ = _uslp()
        t, props = frame_props(*recipe["mp"])
        unpack = f.TransferFrame.unpack
        return lambda b: unpack(raw_frame=b, frame_type=t, frame_properties=props)

    return Entry(f"mp:{ft}", f"TransferFrame.unpack({ft})", bind, corpus, prefix=False, small=small, cfgkey=lambda r: r["mp"], heavy=True, repro=_mp_repro)


TFDF_EXACT = ["len", 0, 1, 2, 3, 4, 65535]


def _tfdf_repro(recipe, lit):
    ft = {None: "None", "fixed": "FrameType.FIXED", "var": "FrameType.VARIABLE"}[recipe["ft"]]
    ex = "len(b)" if recipe["exact"] == "len" else str(recipe["exact"])
    return _IMPORTS["uslp"] + f"\nb = {lit}\nTransferFrameDataField.unpack(b, truncated={recipe['trunc']}, exact_len={ex}, frame_type={ft})"


def _mp_repro(recipe, lit):
    ft, n, iz, fecf = recipe["mp"]
    kw = f"has_insert_zone={iz is not None}, has_fecf={fecf is not None}, insert_zone_len={iz}, fecf_len={fecf}"
    props = f"FixedFrameProperties(fixed_len={n}, {kw})" if ft == "fixed" else f"VarFrameProperties(truncated_frame_len={n}, {kw})"
    return _IMPORTS["uslp"] + f"\nTransferFrame.unpack({lit}, FrameType.{'FIXED' if ft == 'fixed' else 'VARIABLE'}, {props})"


def _tfdf_entry():
    """TransferFrameDataField.unpack for every frame_type {None, FIXED, VARIABLE} x truncated {False, True}; exact_len =
    the length of the unit (corpus) / of the buffer and a few fixed values (small strings)"""
    from units import uslp as UU

    unit = UU.UNITS["UslpTransferFrameDataField"]

    def corpus(tier):
        out = []
        for r in unit.corpus(tier):
            raw = unit.ref(r)
            if len(raw) > 64:
                continue
            for ft in (None, "fixed", "var"):
                for trunc in (False, True):
                    out.append(({"ft": ft, "trunc": trunc, "exact": len(raw)}, raw))
        return out

    def small(tier):
        return [{"ft": ft, "trunc": trunc, "exact": ex} for ft in (None, "fixed", "var") for trunc in (False, True) for ex in TFDF_EXACT]

    def bind(recipe):
        f, _ = _uslp()
        ft = {None: None, "fixed": f.FrameType.FIXED, "var": f.FrameType.VARIABLE}[recipe["ft"]]
        trunc, exact = recipe["trunc"], recipe["exact"]
        unpack = f.TransferFrameDataField.unpack
        if exact == "len":
            return lambda b: unpack(raw_tfdf=b, truncated=trunc, exact_len=len(b), frame_type=ft)
        return lambda b: unpack(raw_tfdf=b, truncated=trunc, exact_len=exact, frame_type=ft)

    return Entry("tfdf:any", "TransferFrameDataField.unpack", bind, corpus, prefix=False, steer=True, small=small,
                 cfgkey=lambda r: (r["ft"], r["trunc"], r["exact"]), heavy=True, steer_small=lambda c: c["exact"] == "len", repro=_tfdf_repro)


# ----------------------------------------------------------------------------------- entry points not in the registry
def _extras(reg):
    out = []
    sph, tm, tc = reg["SpacePacketHeader"], reg["PusTm"], reg["PusTc"]

    def lib_sp():
        import spacepackets.ccsds.spacepacket as sp

        return sp

    out.append(Entry("x:get_apid", "get_apid_from_raw_space_packet", lambda r: (lambda b: lib_sp().get_apid_from_raw_space_packet(b)),
                     _unit_corpus(sph), prefix=False, steer=True, unit=sph, repro=("sp", "get_apid_from_raw_space_packet({b})")))

    # the stream parser, handed the octet string as one chunk with the ID its first two octets spell registered (so that the
    # string "begins with a packet"): a truncated or otherwise malformed stream yields a list, never an undocumented exception
    def bind_parse(r):
        import collections

        def call(b):
            sp = lib_sp()
            raw = (int.from_bytes(bytes(b[:2]), "big") & 0x1FFF) if len(b) >= 2 else 0x0801
            ids = [sp.PacketId.from_raw(raw), sp.PacketId(sp.PacketType.TM, True, 0x7FF)]
            return sp.parse_space_packets(collections.deque([bytearray(b)]), ids)

        return call

    def _parse_repro(recipe, lit):
        return ("import collections\nfrom spacepackets.ccsds.spacepacket import *\nb = " + lit + "\n"
                "ids = [PacketId.from_raw((int.from_bytes(b[:2], 'big') & 0x1FFF) if len(b) >= 2 else 0x0801), PacketId(PacketType.TM, True, 0x7FF)]\n"
                "parse_space_packets(collections.deque([bytearray(b)]), ids)")

    out.append(Entry("x:parse_space_packets", "parse_space_packets", bind_parse, _unit_corpus(tm, 6), prefix=False, steer=True, unit=tm, repro=_parse_repro))
    out.append(Entry("x:parse_space_packets(tc)", "parse_space_packets", bind_parse, _unit_corpus(tc, 6), prefix=False, unit=tc, repro=_parse_repro))

    def twice(unit, n):  # two packets of one ID back to back: every truncation point of the second one follows a complete packet
        def corpus(tier):
            return [(r, raw + raw) for r, raw in _unit_corpus(unit, n)(tier)]

        return corpus

    out.append(Entry("x:parse_space_packets(two)", "parse_space_packets", bind_parse, twice(tc, 4), prefix=False, unit=tc, repro=_parse_repro))
    out.append(Entry("x:parse_space_packets(two tm)", "parse_space_packets", bind_parse, twice(tm, 3), prefix=False, unit=tm, repro=_parse_repro))

    # packet field codes that are not a multiple of 8 (the library rounds them to a width; 5..7, 12..15, 28..31, 60..63 round UP, so a
    # decoder that checks the input against pfc // 8 reads short)
    PFCS = (5, 7, 12, 15, 20, 28, 31, 36, 60, 63, 3, 0, 65)

    def pfe_corpus(tier):
        return [({"pfc": p}, bytes(range(1, 1 + max(1, min(8, (p + 4) // 8))))) for p in PFCS]

    def pfe_bind(r):
        from spacepackets.ecss import PacketFieldEnum

        return lambda b: PacketFieldEnum.unpack(b, r["pfc"])

    out.append(Entry("x:PacketFieldEnum.unpack(pfc)", "PacketFieldEnum.unpack", pfe_bind, pfe_corpus, prefix=False, steer=True, cfgkey=lambda r: r["pfc"],
                     small=lambda tier: [{"pfc": p} for p in PFCS], repro=("ecss", "PacketFieldEnum.unpack({b}, {r[pfc]})")))

    def bind_svc(r):
        from spacepackets.ecss.tm import PusTm

        return PusTm.service_from_bytes

    out.append(Entry("x:service_from_bytes", "PusTm.service_from_bytes", bind_svc, _unit_corpus(tm), prefix=False, unit=tm,
                     repro=("ecss", "PusTm.service_from_bytes({b})")))
    out.append(Entry("x:service_from_bytes(tc)", "PusTm.service_from_bytes", bind_svc, _unit_corpus(tc, 6), prefix=False, unit=tc,
                     repro=("ecss", "PusTm.service_from_bytes({b})")))

    # Service1Tm.unpack of CRC-valid, length-consistent service-1 packets whose source data is the malformed string
    s1 = reg["Service1Tm"]

    def s1_corpus(tier):
        out_, seen = [], set()
        for r in s1.corpus(tier):
            src = RP.srv1_source_data(RP.request_id(*r["rid"]), tuple(r["step"]) if r["step"] else None,
                                      (tuple(r["fail"][0]), unhex(r["fail"][1])) if r["fail"] else None)
            k = (r["sub"], r["step_w"], r["err_w"])
            if k not in seen:
                seen.add(k)
                out_.append(({"sub": r["sub"], "step_w": r["step_w"], "err_w": r["err_w"], "ts_len": 0}, src))
        return out_

    def s1_small(tier):
        """subservice 0..9 x the field widths the subservice reads (step ID: 5, 6; failure code: 2, 4, 6, 8)"""
        W = (1, 2, 4, 8)
        out_ = []
        for sub in range(0, 10):
            step, fail = 1 <= sub <= 8 and RP.srv1_has_step(sub), 1 <= sub <= 8 and RP.srv1_has_failure(sub)
            if step and fail:
                ws = [(a, a) for a in W] if tier == "quick" else [(a, b) for a in W for b in W]
            elif step:
                ws = [(a, 1) for a in W]
            elif fail:
                ws = [(1, b) for b in W]
            else:
                ws = [(1, 1)]
            out_ += [{"sub": sub, "step_w": a, "err_w": b, "ts_len": 0} for a, b in ws]
        return out_

    def s1_bind(r):
        from spacepackets.ecss.pus_1_verification import Service1Tm, UnpackParams

        params = UnpackParams(r["ts_len"], r["step_w"], r["err_w"])
        unpack = Service1Tm.unpack
        return lambda b: unpack(b, params)

    out.append(Entry("x:srv1-source-data", "Service1Tm.unpack", s1_bind, s1_corpus, prefix=False, small=s1_small,
                     cfgkey=lambda r: (r["sub"], r["step_w"], r["err_w"]), wrap=lambda r, s_: RP.tm(1, r["sub"], b"", s_, 0x123, 5),
                     repro=REPRO["Service1Tm.unpack"]))

    # --- CFDP
    from units import cfdp_pdu as UP

    hdr = UP.UNITS["PduHeader"]

    def L():
        return UP.L

    out.append(Entry("x:header_len_from_raw", "AbstractPduBase.header_len_from_raw", lambda r: (lambda b: L().AbstractPduBase.header_len_from_raw(b)),
                     _unit_corpus(hdr), prefix=False, unit=hdr, repro=("cfdp", "AbstractPduBase.header_len_from_raw({b})")))

    def fdb_corpus(tier):
        o = []
        for i, (r, raw) in enumerate(_unit_corpus(hdr)(tier)):
            cfg = dict(r["cfg"], ptype=0)
            code = (4, 5, 6, 7, 8, 9, 12, 0, 255)[i % 9]
            o.append(({"cfg": cfg, "code": code}, RC.encode_header(cfg, {"dlen": 1}) + bytes([code])))
        return o

    def fdb_bind(r):
        import spacepackets.cfdp.pdu.file_directive as fd

        return fd.FileDirectivePduBase.unpack

    out.append(Entry("x:FileDirectivePduBase.unpack", "FileDirectivePduBase.unpack", fdb_bind, fdb_corpus, prefix=True, family="pdu",
                     repro=("cfdp", "FileDirectivePduBase.unpack({b})")))

    def all_pdus(per_kind):
        def corpus(tier):
            o = list(_unit_corpus(hdr, 8)(tier))
            for k in RC.KINDS:
                o += _unit_corpus(UP.UNITS[k], per_kind)(tier)
            return o

        return corpus

    for nm, per in (("pdu_type", 2), ("is_file_directive", 2), ("pdu_directive_type", 4)):
        out.append(Entry("x:PduFactory." + nm, "PduFactory." + nm, (lambda nm_: lambda r: (lambda b: getattr(L().PduFactory, nm_)(b)))(nm),
                         all_pdus(per), prefix=False, steer=(nm == "pdu_type"), repro=("cfdp", "PduFactory." + nm + "({b})")))
    for k in RC.KINDS:
        u = UP.UNITS[k]
        out.append(Entry("x:from_raw_to_holder:" + k, "PduFactory.from_raw_to_holder", lambda r: (lambda b: L().PduFactory.from_raw_to_holder(b)),
                         _unit_corpus(u, {"quick": 4, "thorough": 8}), prefix=True, family="pdu", crc=u.crc_protected, unit=u,
                         repro=("cfdp", "PduFactory.from_raw_to_holder({b})")))

    # --- USLP
    from units import uslp as UU

    def bind_dht(r):
        _, h = _uslp()
        return h.determine_header_type

    for un in ("UslpPrimaryHeader", "UslpTruncatedPrimaryHeader"):
        out.append(Entry("x:determine_header_type:" + un, "determine_header_type", bind_dht, _unit_corpus(UU.UNITS[un]), prefix=False, steer=True,
                         unit=UU.UNITS[un], repro=("uslp", "determine_header_type({b})")))
    out.append(_tfdf_entry())
    out.append(_mp_entry("var"))
    out.append(_mp_entry("fixed"))
    return out


# ------------------------------------------------------------------------- payload enumeration (`field` family)
def pdu_wrap(recipe, s):
    """reference-encoded PDU of the recipe's kind and header configuration whose data field (behind the directive
    code) is s: data field length and CRC consistent"""
    kind, cfg = recipe["kind"], dict(CFG0, **recipe["cfg"])
    src, seq, dst = RC.cfg_ids(cfg)
    if kind == "FileDataPdu":
        ptype, body = RC.FILE_DATA, bytes(s)
    else:
        ptype, body = RC.FILE_DIRECTIVE, bytes([RC.DIRECTIVE_CODE[kind]]) + bytes(s)
    return RC.pdu(ptype, RC.DIRECTION.get(kind, 0), cfg["mode"], cfg["crc"], cfg["large"], cfg.get("segctrl", 0), cfg["idw"], recipe.get("segmeta", 0),
                  cfg["seqw"], src, seq, dst, body)


CFG0 = {"crc": 0, "large": 0, "idw": 1, "seqw": 1, "mode": 0, "segctrl": 0, "ids": "std"}


def sp_wrap(recipe, s):
    """CRC-valid space packet (secondary header flag set) whose whole data field is s + CRC"""
    from ref import ccsds as RS

    hdr = RS.sp_header(0, recipe["ptype"], 1, 0x123, 3, 5, len(s) + 1)
    return CRC.with_crc(hdr + bytes(s))


def uslp_wrap(recipe, s):
    """variable-length frame: primary header (no VCF count) whose frame length says 7 + len(s), then s"""
    return RU.primary_header(0x1234, 0, 5, 3, 7 + len(s) - 1, 0, 0, recipe["ocf"], 0, 0) + bytes(s)


def _field_entries(reg):
    from units import cfdp_pdu as UP
    from units import cfdp_tlv as UT

    out = []
    none = lambda tier: []  # noqa: E731 - no corpus: these entries only enumerate payloads
    key = lambda r: r  # noqa: E731

    def pdu_cfgs(kind, tier):
        hdrs = [(0, 0, 1, 1), (1, 1, 1, 1)] if tier == "quick" else [(c, l, i, q) for c in (0, 1) for l in (0, 1) for i, q in ((1, 1), (2, 4))]
        o = []
        for c, l, i, q in hdrs:
            for sm in ((0, 1) if kind == "FileDataPdu" else (0,)):
                o.append({"kind": kind, "cfg": {"crc": c, "large": l, "idw": i, "seqw": q}, "segmeta": sm})
        return o

    for kind in RC.KINDS:
        u = UP.UNITS[kind]
        out.append(Entry(f"f:{kind}.unpack", f"{kind}.unpack", (lambda u_: lambda r: u_.cls().unpack)(u), none, prefix=False, cfgkey=key, wrap=pdu_wrap,
                         small=(lambda k_: lambda tier: pdu_cfgs(k_, tier))(kind), repro=REPRO[kind + ".unpack"]))
    out.append(Entry("f:PduFactory.from_raw", "PduFactory.from_raw", lambda r: UP.L.PduFactory.from_raw, none, prefix=False, cfgkey=key, wrap=pdu_wrap,
                     small=lambda tier: [c for k in RC.KINDS for c in pdu_cfgs(k, tier)[:2 if k == "FileDataPdu" else 1]], repro=REPRO["PduFactory.from_raw"]))

    # PUS: the whole packet data field is the payload (shorter than any secondary header + CRC: must be refused)
    for un, dn, cfgs in (("PusTc", "PusTc.unpack", [{"ptype": 1}]),
                         ("PusTm", "PusTm.unpack", [{"ptype": 0, "ts_len": 0}, {"ptype": 0, "ts_len": 7}]),
                         ("Service17Tm", "Service17Tm.unpack", [{"ptype": 0, "ts_len": 0}]),
                         ("Service1Tm", "Service1Tm.unpack", [{"ptype": 0, "ts_len": 0, "step_w": 1, "err_w": 1}])):
        fn = dict(reg[un].decoders())[dn]
        out.append(Entry(f"f:{dn}", dn, _bind2(fn), none, prefix=False, cfgkey=key, wrap=sp_wrap, small=(lambda c_: lambda tier: c_)(cfgs), repro=REPRO[dn]))

    # TLV / LV: type octet, consistent length octet, payload
    def tlv_wrap(recipe, s):
        return bytes([recipe["t"], len(s)]) + bytes(s)

    for un, unit in UT.UNITS.items():
        if un == "CfdpLv":
            out.append(Entry("f:CfdpLv.unpack", "CfdpLv.unpack", _bind2(unit.decoders()[0][1]), none, prefix=False, cfgkey=key,
                             wrap=lambda r, s: bytes([len(s)]) + bytes(s), small=lambda tier: [{}], repro=REPRO["CfdpLv.unpack"]))
            continue
        own = 0 if un == "CfdpTlv" else UT.CONCRETE[un][0]
        types = [0, 1, 2, 3, 4, 5, 6, 255] if un == "CfdpTlv" else [own, (own + 1) % 7]
        for dn, fn in unit.decoders():
            out.append(Entry(f"f:{dn}", dn, _bind2(fn), none, prefix=False, cfgkey=key, wrap=tlv_wrap,
                             small=(lambda t_: lambda tier: [{"t": t} for t in t_])(types), repro=REPRO[dn]))

    # USLP: a frame whose header says exactly 7 + len(payload) octets, decoded as variable and as fixed frame
    def frame_bind(r):
        f, _ = _uslp()
        unpack = f.TransferFrame.unpack
        if r["ft"] == "fixed":
            return lambda b: unpack(raw_frame=b, frame_type=f.FrameType.FIXED, frame_properties=f.FixedFrameProperties(fixed_len=len(b), has_insert_zone=False, has_fecf=False))
        props = f.VarFrameProperties(has_insert_zone=False, has_fecf=False, truncated_frame_len=12)
        return lambda b: unpack(raw_frame=b, frame_type=f.FrameType.VARIABLE, frame_properties=props)

    for ft in ("var", "fixed"):
        out.append(Entry(f"f:TransferFrame.unpack({ft})", f"TransferFrame.unpack({ft})", frame_bind, none, prefix=False, cfgkey=key, wrap=uslp_wrap,
                         small=(lambda ft_: lambda tier: [{"ft": ft_, "ocf": o} for o in (0, 1)])(ft),
                         repro=(lambda ft_: lambda r, lit: _mp_repro({"mp": [ft_, "len(b)" if ft_ == "fixed" else 12, None, None]}, "b").replace("TransferFrame.unpack(", f"b = {lit}\nTransferFrame.unpack(", 1))(ft)))
    return out


_ENTRIES = None


def entries():
    """ordered dict key -> Entry (built once per process)"""
    global _ENTRIES
    if _ENTRIES is not None:
        return _ENTRIES
    reg = registry()
    cfgkeys = _cfgkeys()
    out = {}
    for uname, unit in reg.items():
        prefix = bool(unit.self_delimiting or unit.is_cfdp_pdu)  # a length field or a fixed size (DESIGN.md 5.6)
        if uname.startswith("UslpTransferFrame") and uname != "UslpTransferFrameDataField":
            bind, ck, mpf = _frame_entries(unit)
            name = "TransferFrame.unpack(%s)" % ("fixed" if unit.kind == "fixed" else "var")  # kind trunc: variable type, truncated header
            e = Entry(f"{uname}:TransferFrame.unpack", name, bind, _unit_corpus(unit), prefix, family=FAMILY.get(uname), cfgkey=ck, unit=unit,
                      do_small=False, repro=(lambda mp_of_: lambda r, lit: _mp_repro({"mp": mp_of_(r)}, lit))(mpf))
            out[e.key] = e
            continue
        for dname, fn in unit.decoders():
            ck = cfgkeys.get(uname)
            rep = REPRO.get(dname)
            if uname == "UslpTransferFrameDataField":
                ck = lambda r, _u=unit: (r["rule"] in RU.FIXED_RULES, len(_u.ref(r)))  # noqa: E731
                rep = lambda r, lit, _u=unit, _typed=(dname == "TransferFrameDataField.unpack"): _tfdf_repro(  # noqa: E731
                    {"ft": ("fixed" if r["rule"] in RU.FIXED_RULES else "var") if _typed else None, "trunc": False, "exact": len(_u.ref(r))}, lit)
            # the factory adds a dispatch in front of the class decoders: quick runs it on a third of each PDU corpus
            corp = _unit_corpus(unit, {"quick": 12} if dname == "PduFactory.from_raw" else None)
            e = Entry(f"{uname}:{dname}", dname, _bind2(fn), corp, prefix, steer=dname in STEER or (uname in ("PacketFieldEnum", "FailureNotice")),
                      family=FAMILY.get(uname), crc=unit.crc_protected, repro=rep, cfgkey=ck, unit=unit)
            out[e.key] = e
    for e in _extras(reg) + _field_entries(reg):
        out[e.key] = e
    seen = {}
    for e in out.values():
        seen.setdefault(e.name, []).append(e)
    for name, es in seen.items():
        if len(es) > 1:
            if len({x.unit.name for x in es if x.prefix and x.unit is not None}) > 1:  # one entry point, corpora of several unit kinds
                for e in es:
                    e.shared = True
            if all(x.cfgkey is None for x in es):  # same call, no configuration: the small strings once
                for e in es[1:]:
                    e.do_small = False
    _ENTRIES = out
    return out
