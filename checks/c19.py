"""C19 - sequence counters (engine H).  Reference model: an integer counter modulo 2^w.
Events: N = next(provider), G = provider.get_and_increment(), C = provider.current() (file-backed only),
R = restart (drop the instance, create a new one on the same file).  DESIGN.md section 4, C19."""

from __future__ import annotations

import collections
import itertools
import os
import shutil
import tempfile
from pathlib import Path

from mc.rec import Rec

PROPERTY = "C19"
LEVEL = "model_checking"
EXHAUSTIVE = True
RULE = (
    "in-memory provider: every width 1..W, 2*2^w+3 consecutive calls (more than a full cycle), alternating next()/get_and_increment(); "
    "file-backed providers: widths 1..3 every event sequence over {next, get_and_increment, current, restart} up to depth D (stateless) and "
    "state-hashing BFS on (file content, instance attributes) to the fixpoint; larger widths: one full cycle + 3 with a restart at every "
    "inter-call point and one without; PusFileSeqCountProvider likewise; rejection alphabet of unambiguously invalid file contents; missing file. "
    "A case = one executed history; states = distinct (file content, live instance) pairs reached."
)
BOUNDS = {"quick": "W=10 in-memory; file widths 1..3 exhaustive depth<=8 + fixpoint, widths 4..8 + PUS(14) cycle", "thorough": "W=16 in-memory; file widths 1..4 exhaustive depth<=10 + fixpoint, widths 5..14 cycle"}
ASSUMPTIONS = [
    "crash points are the inter-call points, as the property states (torn writes inside a call are not claimed)",
    "the file system gives read-your-writes on a closed file (private temporary directory)",
]


def _sc():
    import spacepackets.seqcount as sc

    return sc


def _tmpdir():
    base = "/dev/shm" if os.path.isdir("/dev/shm") and os.access("/dev/shm", os.W_OK) else None
    return tempfile.mkdtemp(prefix="c19-", dir=base)


def first_line_value(path):
    with open(path) as f:
        return f.readline().rstrip()


# --------------------------------------------------------------- in-memory provider
def mem_history(rec, w):
    sc = _sc()
    import spacepackets.ccsds.spacepacket as sp

    p = sc.SeqCountProvider(w)
    model = 0
    mod = 1 << w
    n = 2 * mod + 3
    case = {"kind": "mem", "w": w}
    for i in range(n):
        v = next(p) if i % 2 == 0 else p.get_and_increment()
        rec.transitions += 1
        if v != model:
            rec.violation("C19.count/SeqCountProvider/wrong-value" + ("/after-wrap" if i >= mod else ""), case,
                          {"call": i, "returned": v}, {"expected": model},
                          repro=f"from spacepackets.seqcount import SeqCountProvider\np = SeqCountProvider({w})\nprint([next(p) for _ in range({i + 1})])  # last must be {model}")
            break
        if not (0 <= v < mod):
            rec.violation("C19.range/SeqCountProvider/out-of-range", case, v, None)
            break
        if w <= 14:
            try:
                sp.PacketSeqCtrl(sp.SequenceFlags.UNSEGMENTED, v)
            except ValueError:
                rec.violation("C19.range/SeqCountProvider/not-a-sequence-count", case, v, None)
                break
        model = (model + 1) % mod
    rec.states += min(n, mod)
    rec.traces += 1
    rec.case(True, ops=n)
    rec.outcome(f"mem/w={w}/calls={n}")


# --------------------------------------------------------------- file-backed provider
class FileMachine:
    """the real provider on a private file plus the integer model"""

    def __init__(self, cls, w, path):
        self.sc = _sc()
        self.cls, self.w, self.path = cls, w, Path(path)
        self.mod = 1 << w
        self.model = 0
        if self.path.exists():
            self.path.unlink()
        self.inst = self._new()

    def _new(self):
        if self.cls == "pus":
            return self.sc.PusFileSeqCountProvider(self.path)
        return self.sc.FileSeqCountProvider(self.w, self.path)

    def apply(self, ev):
        """returns None or (kind, observed, expected)"""
        if ev == "R":
            self.inst = self._new()
        elif ev == "C":
            v = self.inst.current()
            if v != self.model:
                return ("current/wrong-value", v, self.model)
        else:
            v = next(self.inst) if ev == "N" else self.inst.get_and_increment()
            if v != self.model:
                return ("count/wrong-value", v, self.model)
            if not (0 <= v < self.mod):
                return ("range/out-of-range", v, None)
            self.model = (self.model + 1) % self.mod
        # at every inter-call point the file holds a valid count: the model's next value
        line = first_line_value(self.path)
        if not (line.isascii() and line.isdigit() and int(line) == self.model):
            return ("file/not-the-next-count", line, str(self.model))
        return None

    def key(self):
        d = dict(self.inst.__dict__)
        return (self.path.read_bytes(), tuple(sorted((k, repr(v)) for k, v in d.items())))


def file_stateless(rec, cls, w, depth, tmp, first="N"):
    path = os.path.join(tmp, f"sl-{cls}-{w}.txt")
    evs = "NGCR"
    n = 0
    for L in range(0 if first == "N" else 1, depth + 1):
        for tail in itertools.product(evs, repeat=max(L - 1, 0)):
            seq = ((first,) + tail) if L else ()
            m = FileMachine(cls, w, path)
            n += 1
            for i, ev in enumerate(seq):
                r = m.apply(ev)
                rec.transitions += 1
                if r:
                    feat = "after-restart" if "R" in seq[: i + 1] else "no-restart"
                    rec.violation(f"C19.{r[0]}/{_clsname(cls)}/{feat}", {"kind": "file", "cls": cls, "w": w, "seq": "".join(seq[: i + 1])}, r[1], r[2])
                    break
    rec.traces += n
    rec.evaluations += n
    rec.nontrivial += n - 1
    rec.count(f"stateless_histories_w{w}", n)


def file_bfs(rec, cls, w, tmp):
    """state-hashing search to the fixpoint; a state is rebuilt by replaying its history on a fresh file"""
    path = os.path.join(tmp, f"bfs-{cls}-{w}.txt")

    def build(hist):
        m = FileMachine(cls, w, path)
        for ev in hist:
            r = m.apply(ev)
            if r:
                return m, r
        return m, None

    m, _ = build(())
    seen = {m.key(): ()}
    frontier = collections.deque([()])
    while frontier:
        hist = frontier.popleft()
        for ev in "NGCR":
            h2 = hist + (ev,)
            m, r = build(h2)
            rec.transitions += 1
            if r:
                rec.violation(f"C19.{r[0]}/{_clsname(cls)}/bfs", {"kind": "file", "cls": cls, "w": w, "seq": "".join(h2)}, r[1], r[2])
                continue
            k = m.key()
            if k not in seen:
                seen[k] = h2
                frontier.append(h2)
    rec.states += len(seen)
    rec.traces += len(seen)
    rec.case(True, ops=len(seen))
    rec.count(f"bfs_states_w{w}", len(seen))
    rec.outcome(f"bfs/{cls}/w={w}/states={len(seen)}")
    # a full cycle must come back to a state with the same file *value* (content may differ in stale bytes)
    if len(seen) < (1 << w):
        rec.violation(f"C19.count/{_clsname(cls)}/fewer-states-than-counts", {"kind": "bfs", "cls": cls, "w": w}, len(seen), 1 << w)


def file_cycle(rec, cls, w, restart_every, tmp):
    path = os.path.join(tmp, f"cy-{cls}-{w}-{int(restart_every)}.txt")
    m = FileMachine(cls, w, path)
    n = (1 << w) + 3
    seq = []
    for i in range(n):
        for ev in ((("R",) if restart_every else ()) + (("N",) if i % 2 else ("G",))):
            seq.append(ev)
            r = m.apply(ev)
            rec.transitions += 1
            if r:
                rec.violation(f"C19.{r[0]}/{_clsname(cls)}/cycle" + ("/restart-every-call" if restart_every else ""),
                              {"kind": "cycle", "cls": cls, "w": w, "restart_every": restart_every, "upto": i}, r[1], r[2])
                return
    rec.states += 1 << w
    rec.traces += 1
    rec.case(True, ops=len(seq))
    rec.outcome(f"cycle/{cls}/w={w}/restart={restart_every}")
    rec.sample({"provider": _clsname(cls), "width": w, "restart_at_every_inter_call_point": restart_every, "calls": n, "last_value_expected": (n - 1) % (1 << w)})


def _clsname(cls):
    return "PusFileSeqCountProvider" if cls == "pus" else "FileSeqCountProvider"


# --------------------------------------------------------------- rejection clause
def bad_contents(w):
    mod = 1 << w
    return ["", "\n", "abc\n", "-1\n", "1.5\n", "0x1\n", " 7\n", f"{mod}\n", f"{mod + 1}\n", f"{10 ** 30}\n", "²\n", "+1\n", "1e3\n", "seven\n"]


def reject(rec, cls, w, tmp):
    sc = _sc()
    path = Path(os.path.join(tmp, f"rej-{cls}-{w}.txt"))
    for content in bad_contents(w):
        for op in ("next", "get_and_increment", "current"):
            path.write_text(content, encoding="utf-8")
            inst = sc.PusFileSeqCountProvider(path) if cls == "pus" else sc.FileSeqCountProvider(w, path)
            case = {"kind": "reject", "cls": cls, "w": w, "content": content, "op": op}
            rec.case(True, ops=1)
            try:
                v = next(inst) if op == "next" else getattr(inst, op)()
            except ValueError:
                rec.outcome("reject/ValueError")
                continue
            except Exception as e:
                rec.violation(f"C19.reject/{_clsname(cls)}/wrong-exception/{type(e).__name__}", case, repr(e), "ValueError")
                continue
            rec.violation(f"C19.reject/{_clsname(cls)}/accepted", case, v, "ValueError")
    # missing file
    for op in ("next", "get_and_increment", "current"):
        path.write_text("0\n")
        inst = sc.PusFileSeqCountProvider(path) if cls == "pus" else sc.FileSeqCountProvider(w, path)
        path.unlink()
        case = {"kind": "missing", "cls": cls, "w": w, "op": op}
        rec.case(True, ops=1)
        try:
            v = next(inst) if op == "next" else getattr(inst, op)()
        except FileNotFoundError:
            rec.outcome("missing/FileNotFoundError")
            continue
        except Exception as e:
            rec.violation(f"C19.missing/{_clsname(cls)}/wrong-exception/{type(e).__name__}", case, repr(e), "FileNotFoundError")
            continue
        rec.violation(f"C19.missing/{_clsname(cls)}/accepted", case, v, "FileNotFoundError")
    # a provider created on a path without a file starts the sequence at 0 and creates a valid file
    if path.exists():
        path.unlink()
    inst = sc.PusFileSeqCountProvider(path) if cls == "pus" else sc.FileSeqCountProvider(w, path)
    rec.case(True, ops=2)
    if not path.exists() or inst.current() != 0 or next(inst) != 0:
        rec.violation(f"C19.count/{_clsname(cls)}/fresh-file-not-zero", {"kind": "fresh", "cls": cls, "w": w}, None, 0)


# --------------------------------------------------------------- shards
def shards(tier):
    q = tier == "quick"
    items = [{"kind": "mem", "w": w} for w in range(1, (10 if q else 16) + 1)]
    for w in (1, 2, 3) if q else (1, 2, 3, 4):
        for first in "NGCR":
            items.append({"kind": "stateless", "cls": "file", "w": w, "first": first, "depth": min(2 * (1 << w) + 2, 8 if q else 10) if w < 3 else (7 if q else 8)})
        items.append({"kind": "bfs", "cls": "file", "w": w})
    for w in (range(4, 9) if q else range(5, 15)):
        for r in (True, False):
            items.append({"kind": "cycle", "cls": "file", "w": w, "restart": r})
    for r in (True, False):
        items.append({"kind": "cycle", "cls": "pus", "w": 14, "restart": r})
    for w in (1, 8, 14):
        items.append({"kind": "reject", "cls": "file", "w": w})
    items.append({"kind": "reject", "cls": "pus", "w": 14})
    return items


def run_shard(item):
    rec = Rec(PROPERTY, item)
    _run(rec, item)
    return rec.result()


def _run(rec, item):
    k = item["kind"]
    if k == "mem":
        mem_history(rec, item["w"])
        return
    tmp = _tmpdir()
    try:
        if k == "stateless":
            file_stateless(rec, item["cls"], item["w"], item["depth"], tmp, item["first"])
        elif k == "bfs":
            file_bfs(rec, item["cls"], item["w"], tmp)
        elif k == "cycle":
            file_cycle(rec, item["cls"], item["w"], item["restart"], tmp)
        elif k == "reject":
            reject(rec, item["cls"], item["w"], tmp)
    finally:
        shutil.rmtree(tmp, ignore_errors=True)


def replay(case):
    rec = Rec(PROPERTY, "replay")
    k = case["kind"]
    if k == "mem":
        mem_history(rec, case["w"])
        return rec.result()
    tmp = _tmpdir()
    try:
        if k == "file":
            m = FileMachine(case["cls"], case["w"], os.path.join(tmp, "replay.txt"))
            seq = case["seq"]
            for i, ev in enumerate(seq):
                r = m.apply(ev)
                if r:
                    for feat in ("after-restart" if "R" in seq[: i + 1] else "no-restart", "bfs"):
                        rec.violation(f"C19.{r[0]}/{_clsname(case['cls'])}/{feat}", case, r[1], r[2])
                    break
        elif k == "cycle":
            file_cycle(rec, case["cls"], case["w"], case["restart_every"], tmp)
        elif k == "bfs":
            file_bfs(rec, case["cls"], case["w"], tmp)
        else:
            reject(rec, case["cls"], case["w"], tmp)
    finally:
        shutil.rmtree(tmp, ignore_errors=True)
    return rec.result()
