"""C19 - sequence counters (engine H).  Reference model: an integer counter modulo 2^w, w = the provider's
current `max_bit_width`.
Events: N = next(provider), G = provider.get_and_increment(), C = provider.current() on the live instance AND on a
fresh instance created on the same file (file-backed only), R = restart (drop the instance, create a new one on the
same file, with the current width), W<k> = `provider.max_bit_width = k` (the documented setter of the
ProvidesSeqCount interface).  DESIGN.md section 4, C19."""

from __future__ import annotations

import collections
import itertools
import os
import shutil
import tempfile
from pathlib import Path

from mc.rec import Rec

PROPERTY = "C19"
LEVEL = "model_checking"
EXHAUSTIVE = True
RULE = (
    "in-memory provider: every width 1..W, 2*2^w+3 consecutive calls (more than a full cycle), alternating next()/get_and_increment(); "
    "every history over {next, get_and_increment, max_bit_width=1|2|3} up to depth D from each start width (stateless) and state-hashing BFS over "
    "(count, width) with the width alphabet A to the fixpoint; "
    "file-backed providers: widths 1..3 every event sequence over {next, get_and_increment, current, restart} up to depth D, every sequence over "
    "{next, get_and_increment, current, restart, max_bit_width=1|2|3} up to depth Ds (stateless) and state-hashing BFS on (file content, instance "
    "attributes, model) over the events + width alphabet A to the fixpoint; PusFileSeqCountProvider: every sequence over the same events with "
    "widths {1,3,14} up to depth Ds; larger widths: one full cycle + 3 from a fresh file and one full cycle + 6 from a file holding 2^w-3 (so "
    "every count is also visited with the stale tail bytes a wrap leaves behind), each with a restart at every inter-call point and without any, "
    "current() on the live and on a fresh instance at EVERY inter-call point; EVERY width 1..128 (so also 31..33, 53..55, 63..65, 127, 128): 8 calls across "
    "the wrap from 2^w-3 (both next()/get_and_increment() phases), with and without restarts; width change mid-run for ordered width pairs (3 calls, set, 2^w2+3 calls); a narrowing "
    "set is only judged when the current count fits the new width, widening always; rejection alphabet of unambiguously invalid file contents "
    "(incl. 2^w and 2^w+1 for every width, also when the width was reached through the setter), acceptance of 0 and 2^w-1; missing file; "
    "several live providers (in-memory and file-backed, widths 1, 2, 14, separate files), every interleaving of calls up to depth Di, created up-front "
    "or at first use: each counts on its own. "
    "A case = one executed history; states = distinct (file content, live instance, model) triples reached."
)
BOUNDS = {
    "quick": "W=10 in-memory, D=6, A={1..5}; file widths 1..3 exhaustive depth<=8, Ds=5, A={1..4} fixpoint, widths 4..8,10 + PUS(14) cycles, "
             "top-of-range runs and rejection for every width 1..128, width pairs over {2,5,8,10}, 5 live providers interleaved depth<=5",
    "thorough": "W=16 in-memory, D=7, A={1..6}; file widths 1..4 exhaustive depth<=10, Ds=6, A={1..5,7} fixpoint, widths 5..14 cycles, "
                "top-of-range runs and rejection for every width 1..128, width pairs over {2,5,8,11,14} (in-memory also 16), 5 live providers interleaved depth<=7",
}
ASSUMPTIONS = [
    "crash points are the inter-call points, as the property states (torn writes inside a call are not claimed)",
    "the file system gives read-your-writes on a closed file (private temporary directory)",
    "a file holding '<v>\\n' with 0 <= v < 2^w is the state a provider that stopped at v leaves behind (used to start runs at 2^w-3)",
    "SeqCountProvider.count is the public next-value attribute; it is only used to start near the top of wide counters after the check "
    "has observed that it exists, is 0 on a new provider and 1 after one call (otherwise the wide in-memory runs are skipped and counted)",
    "a restart re-creates the instance with the width currently in force (PusFileSeqCountProvider: 14)",
]

WIDE = tuple(range(1, 129))  # 'for all widths': every width up to 16-octet counters, in particular 31..33, 53..55, 63..65


def _sc():
    import spacepackets.seqcount as sc

    return sc


def _tmpdir():
    base = "/dev/shm" if os.path.isdir("/dev/shm") and os.access("/dev/shm", os.W_OK) else None
    return tempfile.mkdtemp(prefix="c19-", dir=base)


def _clsname(cls):
    return {"pus": "PusFileSeqCountProvider", "file": "FileSeqCountProvider", "mem": "SeqCountProvider"}[cls]


def mem_count_attr_is_state():
    """the public attribute `count` demonstrably is the in-memory provider's next value"""
    p = _sc().SeqCountProvider(5)
    if vars(p).get("count", None) != 0 or isinstance(vars(p).get("count"), bool):
        return False
    if next(p) != 0:
        return True  # the first-use clause fails; the runs report it
    return vars(p).get("count", None) == 1


# --------------------------------------------------------------- in-memory provider, full cycles
def mem_history(rec, w):
    sc = _sc()
    import spacepackets.ccsds.spacepacket as sp

    p = sc.SeqCountProvider(w)
    model = 0
    mod = 1 << w
    n = 2 * mod + 3
    case = {"kind": "mem", "w": w}
    for i in range(n):
        v = next(p) if i % 2 == 0 else p.get_and_increment()
        rec.transitions += 1
        if v != model:
            rec.violation("C19.count/SeqCountProvider/wrong-value" + ("/after-wrap" if i >= mod else ""), case,
                          {"call": i, "returned": v}, {"expected": model},
                          repro=f"from spacepackets.seqcount import SeqCountProvider\np = SeqCountProvider({w})\nprint([next(p) for _ in range({i + 1})])  # last must be {model}")
            break
        if not (0 <= v < mod):
            rec.violation("C19.range/SeqCountProvider/out-of-range", case, v, None)
            break
        if w <= 14:
            try:
                sp.PacketSeqCtrl(sp.SequenceFlags.UNSEGMENTED, v)
            except ValueError:
                rec.violation("C19.range/SeqCountProvider/not-a-sequence-count", case, v, None)
                break
        model = (model + 1) % mod
    rec.states += min(n, mod)
    rec.traces += 1
    rec.case(True, ops=n)
    rec.outcome(f"mem/w={w}/calls={n}")


# --------------------------------------------------------------- the machine: real provider + integer model
def _applicable(cls, model, ev):
    if model is None:  # the count file was removed: nothing further is defined
        return False
    if ev in ("X", "D", "K", "Z"):
        return cls != "mem"
    if ev in ("C", "R"):
        if cls == "mem":
            return False
        if ev == "R" and cls == "pus":
            return model < (1 << 14)  # the new instance is 14 bit wide again
        return True
    if ev[0] == "W":
        return model < (1 << int(ev[1:]))  # narrowing is judged only if the count fits; widening always
    return True


class Machine:
    """the real provider (in memory, or on a private file) plus the integer model (count, width)"""

    def __init__(self, cls, w, path=None, start=None, nl=True):
        self.sc = _sc()
        self.cls, self.w = cls, w
        self.path = Path(path) if path is not None else None
        self.model = 0 if start is None else start
        self.ops = 0
        if cls != "mem":
            if self.path.exists():
                self.path.unlink()
            if start is not None:
                self.path.write_text(f"{start}\n" if nl else f"{start}")  # nl=False: a count file written without a line terminator
        self.inst = self._new()
        if cls == "mem" and start is not None:
            self.inst.count = start

    @property
    def mod(self):
        return 1 << self.w

    def _new(self):
        if self.cls == "mem":
            return self.sc.SeqCountProvider(self.w)
        if self.cls == "pus":
            return self.sc.PusFileSeqCountProvider(self.path)
        return self.sc.FileSeqCountProvider(self.w, self.path)

    def applicable(self, ev):
        """events whose outcome the property fixes in the current model state"""
        return _applicable(self.cls, self.model, ev)

    def _try(self, fn):
        self.ops += 1
        try:
            return None, fn()
        except Exception as e:  # noqa: BLE001 - every operation of a judged history must succeed
            return e, None

    def apply(self, ev):
        """returns None or (kind, observed, expected)"""
        if ev == "R":
            e, inst = self._try(self._new)
            if e is not None:
                return ("restart/raised", repr(e), "a new instance on a file holding a valid count")
            self.inst = inst
            if self.cls == "pus":
                self.w = 14
        elif ev == "C":
            e, v = self._try(self.inst.current)
            if e is not None:
                return ("current/raised", repr(e), self.model)
            if v != self.model:
                return ("current/wrong-value", v, self.model)
            width = self.w

            def fresh():
                inst = self._new()
                if self.cls == "pus" and width != 14:
                    inst.max_bit_width = width
                return inst.current()

            e, v = self._try(fresh)
            if e is not None:
                return ("current/fresh-instance-raised", repr(e), self.model)
            if v != self.model:
                return ("current/fresh-instance-wrong-value", v, self.model)
        elif ev == "X":
            # environment: the count file is replaced by another file holding the same count (restored from a backup, rewritten
            # by a tool): the state lives in "the file" of that name, whichever instance or handle wrote it last
            tmpf = Path(str(self.path) + ".new")
            tmpf.write_text(f"{self.model}\n")
            os.replace(tmpf, self.path)
        elif ev == "Z":
            # environment: another writer (a second instance that wrapped or was reset, an operator) leaves a SMALLER valid count in
            # the file: the state is what the file says
            self.path.write_text("0\n")
            self.model = 0
        elif ev == "K":
            # create_new(): the documented way to (re)start the sequence - afterwards the file holds 0 and counting starts over
            e, _ = self._try(self.inst.create_new)
            if e is not None:
                return ("create_new/raised", repr(e), None)
            self.model = 0
        elif ev == "D":
            # environment: the count file is removed - every entry point reports the missing file, also on a used instance
            self.path.unlink()
            for name, fn in (("next", lambda: next(self.inst)), ("current", self.inst.current), ("get_and_increment", self.inst.get_and_increment)):
                e, v = self._try(fn)
                if not isinstance(e, FileNotFoundError):
                    return (f"missing/not-reported-by-{name}", repr(e) if e is not None else v, "FileNotFoundError")
            self.model = None
            return None
        elif ev[0] == "W":
            w2 = int(ev[1:])

            def setw():
                self.inst.max_bit_width = w2

            e, _ = self._try(setw)
            if e is not None:
                return ("width/setter-raised", repr(e), None)
            self.w = w2
        else:
            e, v = self._try((lambda: next(self.inst)) if ev == "N" else self.inst.get_and_increment)
            if e is not None:
                return ("count/raised", repr(e), self.model)
            if v != self.model:
                return ("count/wrong-value", v, self.model)
            if not (0 <= v < self.mod):
                return ("range/out-of-range", v, None)
            self.model = (self.model + 1) % self.mod
        if self.cls == "mem":
            return None
        # at every inter-call point the file holds a valid count: the model's next value
        try:
            with open(self.path, "rb") as f:
                raw = f.readline()
        except FileNotFoundError:
            return ("file/missing", None, str(self.model))
        try:
            line = raw.decode("ascii").rstrip()
        except UnicodeDecodeError:
            return ("file/not-the-next-count", repr(raw), str(self.model))
        if not (line.isdigit() and int(line) == self.model):
            return ("file/not-the-next-count", line, str(self.model))
        return None

    def key(self):
        d = dict(self.inst.__dict__)
        content = self.path.read_bytes() if self.cls != "mem" else None
        return (content, tuple(sorted((k, repr(v)) for k, v in d.items())), self.model, self.w)


def _sig(r0, cls, feat):
    """<ID>.<clause>/<subject>/<kind>/<feature>"""
    clause, kind = r0.split("/", 1)
    return f"C19.{clause}/{_clsname(cls)}/{kind}/{feat}"


def _feat(prefix):
    if any(e[0] == "W" for e in prefix):
        return "after-width-change"
    return "after-restart" if "R" in prefix else "no-restart"


def _hist_case(cls, w, seq, start=None):
    return {"kind": "hist", "cls": cls, "w": w, "start": start, "seq": list(seq)}


def stateless(rec, cls, w, events, depth, tmp, first):
    """every history over `events` that starts with the prefix `first` (one event or a list of events) and has length <= depth,
    each executed from scratch; the shard of the all-`events[0]` prefix also runs the histories shorter than the prefix"""
    path = os.path.join(tmp, f"sl-{cls}-{w}.txt") if cls != "mem" else None
    prefix = (first,) if isinstance(first, str) else tuple(first)
    n = skipped = 0
    ops = 0

    def histories():
        if prefix == (events[0],) * len(prefix):
            for L in range(len(prefix)):
                yield from itertools.product(events, repeat=L)
        for L in range(len(prefix), depth + 1):
            for tail in itertools.product(events, repeat=L - len(prefix)):
                yield prefix + tail

    empty = 0
    for seq in histories():
        empty += not seq
        m = Machine(cls, w, path)
        ok = True
        for i, ev in enumerate(seq):
            if not m.applicable(ev):
                ok = False
                break
            r = m.apply(ev)
            rec.transitions += 1
            if r:
                rec.violation(_sig(r[0], cls, _feat(seq[: i + 1])), _hist_case(cls, w, seq[: i + 1]), r[1], r[2])
                break
        ops += m.ops
        if ok:
            n += 1
        else:
            skipped += 1
    rec.traces += n
    rec.evaluations += n
    rec.nontrivial += max(n - empty, 0)
    rec.ops += ops
    rec.count(f"stateless_histories_{cls}_w{w}", n)
    rec.count("histories_cut_at_an_unjudged_narrowing", skipped)
    rec.outcome(f"stateless/{cls}/w={w}/events={''.join(events)}/depth={depth}")


def bfs(rec, cls, w, widths, tmp):
    """state-hashing search to the fixpoint; a state is rebuilt by replaying its history from scratch"""
    path = os.path.join(tmp, f"bfs-{cls}-{w}.txt") if cls != "mem" else None
    events = (["N", "G"] if cls == "mem" else ["N", "G", "C", "R"]) + [f"W{k}" for k in widths]

    def build(hist):
        m = Machine(cls, w, path)
        for ev in hist:
            r = m.apply(ev)
            if r:
                return m, r
        return m, None

    m, _ = build(())
    seen = {m.key(): ()}
    frontier = collections.deque([((), m.model)])
    unjudged = 0
    nviol = 0
    # A conforming provider has at most (number of counts of every width) x (file variants) states; an implementation
    # whose hidden state grows without bound (e.g. a call counter that is never reduced) would make this search
    # infinite.  The search therefore stops - and says so in the evidence, it is not a verdict by itself - once it
    # holds far more states than any conforming provider can have, or after a few violations (the first one is the
    # shortest witness; exploring beyond violating transitions adds nothing).
    cap = 64 * sum(1 << k for k in set(list(widths) + [w])) + 1024
    while frontier:
        if len(seen) > cap or nviol >= 8:
            rec.count("bfs_stopped_early(state-cap-or-violations)")
            rec.outcome(f"bfs/{cls}/w={w}/stopped-early/states={len(seen)}/violations={nviol}")
            break
        hist, model = frontier.popleft()
        for ev in events:
            if not _applicable(cls, model, ev):
                unjudged += 1
                continue
            h2 = hist + (ev,)
            m, r = build(h2)
            rec.transitions += 1
            rec.ops += 1
            if r:
                rec.violation(_sig(r[0], cls, "bfs"), _hist_case(cls, w, h2), r[1], r[2])
                nviol += 1
                continue
            k = m.key()
            if k not in seen:
                seen[k] = h2
                frontier.append((h2, m.model))
    rec.states += len(seen)
    rec.traces += len(seen)
    rec.case(True)
    rec.count(f"bfs_states_{cls}_w{w}", len(seen))
    rec.count("bfs_unjudged_narrowings", unjudged)
    rec.outcome(f"bfs/{cls}/w={w}/widths={','.join(map(str, widths))}/states={len(seen)}")
    # every count of the widest counter must be a distinct state
    top = 1 << max(list(widths) + [w])
    if len(seen) < top and nviol == 0:
        rec.violation(f"C19.count/{_clsname(cls)}/fewer-states-than-counts", {"kind": "bfs", "cls": cls, "w": w, "widths": list(widths)}, len(seen), top)


def _script(rec, sig_tail, case, m, script):
    """run an iterable of events on machine m; False after the first violation"""
    for ev in script:
        if not m.applicable(ev):
            raise AssertionError(f"check bug: scripted event {ev} not judged in {case}")
        r = m.apply(ev)
        rec.transitions += 1
        if r:
            rec.violation(_sig(r[0], m.cls, sig_tail), case, r[1], r[2])
            return False
    return True


def _calls(n, restart_every, observe=True, first=0):
    for i in range(first, first + n):
        if restart_every:
            yield "R"
        yield "N" if i % 2 else "G"
        if observe:
            yield "C"


def file_cycle(rec, cls, w, restart_every, near_top, tmp):
    """one full cycle: from a fresh file (2^w+3 calls) or from a file holding 2^w-3 (2^w+6 calls: wraps at once, then
    visits every count with the stale tail bytes of the longer counts behind the first line, wraps again)"""
    path = os.path.join(tmp, f"cy-{cls}-{w}.txt")
    mod = 1 << w
    start = (mod - 3) % mod if near_top else None
    m = Machine(cls, w, path, start=start)
    n = mod + (6 if near_top else 3)
    case = {"kind": "cycle", "cls": cls, "w": w, "restart_every": restart_every, "near_top": near_top}
    ok = _script(rec, "cycle" + ("/restart-every-call" if restart_every else ""), case, m, itertools.chain(["C"], _calls(n, restart_every)))
    rec.states += mod
    rec.traces += 1
    rec.case(True, ops=m.ops)
    if ok:
        rec.outcome(f"cycle/{cls}/w={w}/restart={restart_every}/near_top={near_top}")
        rec.sample({"provider": _clsname(cls), "width": w, "restart_at_every_inter_call_point": restart_every, "file_starts_at": start or 0,
                    "calls": n, "current()_on_live_and_fresh_instance_after_every_call": True, "last_value_expected": ((start or 0) + n - 1) % mod})


def wide(rec, cls, restart_every, tmp):
    """widths beyond what a cycle can cover: 8 calls across the wrap, starting at 2^w-3"""
    if cls == "mem" and not mem_count_attr_is_state():
        rec.count("mem_wide_widths_skipped_no_public_count_attribute", len(WIDE))
        rec.case(False)
        return
    for w in WIDE:
        path = os.path.join(tmp, f"wide-{cls}-{w}.txt") if cls != "mem" else None
        case = {"kind": "wide", "cls": cls, "restart_every": restart_every, "w": w}
        if cls == "mem":  # first use of a new provider yields 0 whatever the width
            p = _sc().SeqCountProvider(w)
            v = next(p)
            if v != 0:
                rec.violation("C19.count/SeqCountProvider/wide/first-use-not-zero", case, v, 0)
        top = ((1 << w) - 3) % (1 << w)
        ok = True
        for parity in (0, 1):  # the call that returns 2^w-1 and the one that returns 0 are made through both entry points
            for nl in ((True, False) if cls != "mem" else (True,)):  # the start file with and without a line terminator
                m = Machine(cls, w, path, start=top, nl=nl)
                ok = _script(rec, "wide" + ("/restart-every-call" if restart_every else "") + ("" if nl else "/start-file-without-newline"), case, m,
                             itertools.chain(["C"] if cls != "mem" else [], _calls(8, restart_every, observe=cls != "mem", first=parity))) and ok
                rec.states += 8
                rec.traces += 1
                rec.case(True, ops=m.ops)
        if ok:
            rec.outcome(f"wide/{cls}/w={w}/restart={restart_every}")
            if w in (54, 64):
                rec.sample({"provider": _clsname(cls), "width": w, "starts_at": str(top), "calls": 8, "expected": [str((top + i) % (1 << w)) for i in range(8)]}, limit=2)
    rec.count(f"wide_widths_{cls}", len(WIDE))


def setcycle(rec, cls, w1, w2, tmp):
    """a width change on a live provider: k calls at width w1 (count k fits w2), set w2, then more than a full cycle"""
    path = os.path.join(tmp, f"set-{cls}-{w1}-{w2}.txt") if cls != "mem" else None
    k = min(3, (1 << w1) - 1, (1 << w2) - 1)
    m = Machine(cls, w1, path)
    case = {"kind": "setcycle", "cls": cls, "w1": w1, "w2": w2}
    obs = cls != "mem"
    n = (1 << w2) + 3
    ok = _script(rec, "width-change-cycle", case, m, itertools.chain(_calls(k, False, obs), [f"W{w2}"], ["C"] if obs else [], _calls(n, False, obs, first=k)))
    rec.states += 1 << w2
    rec.traces += 1
    rec.case(True, ops=m.ops)
    if ok:
        rec.outcome(f"setcycle/{cls}/{w1}->{w2}")
        rec.sample({"provider": _clsname(cls), "calls_at_width": [w1, k], "then_max_bit_width": w2, "then_calls": n, "expected": f"(i) mod 2^{w2} for call i"}, limit=2)


# --------------------------------------------------------------- several live providers (every provider counts on its own)
PROVS = [["mem", 1], ["file", 1], ["mem", 2], ["file", 2], ["pus", 14]]


def interleave_one(rec, provs, lazy, seq, tmp):
    """one history: seq[j] = index of the provider that is called at step j (get_and_increment / next alternate).
    lazy: a provider is created at its first use (after others were used) instead of all up-front."""
    def mk(i):
        cls, w = provs[i]
        return Machine(cls, w, os.path.join(tmp, f"il-{i}.txt") if cls != "mem" else None)

    ms = {} if lazy else {i: mk(i) for i in range(len(provs))}
    for j, i in enumerate(seq):
        if i not in ms:
            ms[i] = mk(i)
        r = ms[i].apply("N" if j % 2 else "G")
        if r is None and provs[i][0] != "mem" and j % 3 == 2:
            r = ms[i].apply("C")
        rec.transitions += 1
        if r:
            rec.violation(_sig(r[0], provs[i][0], "interleaved-with-other-providers"),
                          {"kind": "interleave", "provs": provs, "lazy": lazy, "seq": list(seq[: j + 1])}, r[1], r[2])
            return False
    rec.ops += sum(m.ops for m in ms.values())
    return True


def interleave(rec, provs, lazy, depth, first, tmp):
    n = 0
    for L in range(1, depth + 1):
        for tail in itertools.product(range(len(provs)), repeat=L - 1):
            interleave_one(rec, provs, lazy, (first,) + tail, tmp)
            n += 1
    rec.traces += n
    rec.evaluations += n
    rec.nontrivial += n
    rec.count("interleaved_histories", n)
    rec.outcome(f"interleave/lazy={lazy}/depth={depth}")


# --------------------------------------------------------------- rejection clause
def bad_contents(w):
    """octet strings that are not a valid count: texts that are no decimal number or out of range, and CORRUPTIONS of valid counts
    (one foreign octet or character inserted at every position of a valid decimal text: non-ASCII octets that are not UTF-8, a
    two-octet character, NUL, sign, point) - a reader that skips what it cannot decode would make a count up"""
    mod = 1 << w
    texts = ["", "\n", "abc\n", "-1\n", "1.5\n", "0x1\n", " 7\n", f"{mod}\n", f"{mod + 1}\n", f"{max(10 ** 30, mod * 10)}\n", "\u00b2\n", "+1\n", "1e3\n", "seven\n"]
    out = [t.encode("utf-8") for t in texts]
    valid = sorted({"0", str(mod - 1), str(min(5, mod - 1)), str(min(12, mod - 1))})
    for t in valid:
        for p in range(len(t) + 1):
            for ins in (b"\x80", b"\xb3", b"\xff", "\u00e9".encode("utf-8"), b"\x00", b"-", b"."):
                out.append(t[:p].encode() + ins + t[p:].encode() + b"\n")
    seen, res = set(), []
    for c in out:
        if c not in seen:
            seen.add(c)
            res.append(c)
    return res


OPS = ("next", "get_and_increment", "current")


def _reject_modes(cls, w):
    """how the provider got its width: constructor, or the documented setter from a wider / narrower one"""
    if cls == "pus":
        return [("ctor", 14)]
    return [("ctor", w), ("narrowed", w + 8), ("widened", max(w - 1, 1))] if w > 1 else [("ctor", w), ("narrowed", w + 8)]


def reject(rec, cls, w, tmp):
    sc = _sc()
    path = Path(os.path.join(tmp, f"rej-{cls}-{w}.txt"))
    mod = 1 << w

    def make(mode, w0):
        inst = sc.PusFileSeqCountProvider(path) if cls == "pus" else sc.FileSeqCountProvider(w0, path)
        if mode != "ctor":
            inst.max_bit_width = w
        return inst

    def call(inst, op):
        return next(inst) if op == "next" else getattr(inst, op)()

    for mode, w0 in _reject_modes(cls, w):
        tag = "" if mode == "ctor" else "/width-set-by-setter"
        for ci, content in enumerate(bad_contents(w) if mode == "ctor" else [f"{mod}\n".encode(), f"{mod + 1}\n".encode()]):
            for op in OPS:
                # warm = 0: a new instance finds the bad content; warm = 1, 2: an instance that already made that many good
                # calls (a call through each entry point) finds the file changed under it - every read is checked, not only the first
                for warm in (0, 1, 2):
                    path.write_bytes(content if not warm else b"0\n")
                    inst = make(mode, w0)
                    case = {"kind": "reject", "cls": cls, "w": w, "content": content.decode("utf-8", "backslashreplace"), "content_hex": content.hex(), "op": op, "mode": mode, "warm": warm}
                    rec.case(True, ops=1 + warm)
                    wtag = tag + ("/on-a-used-instance" if warm else "")
                    try:
                        for i in range(warm):
                            call(inst, ("current", "get_and_increment")[(i + 1) % 2] if warm == 2 else op)
                        if warm:
                            path.write_bytes(content)
                    except Exception:
                        continue  # the good calls are judged by the counting clauses
                    try:
                        v = call(inst, op)
                    except ValueError:
                        rec.outcome("reject/ValueError")
                        # the refusal leaves the instance usable: once the file holds a valid count again the same instance reads
                        # it (judged for the first contents of the alphabet: a provider that blocks here would take a second each)
                        if ci < 3 and not warm:
                            good = min(3, mod - 1)
                            path.write_bytes(f"{good}\n".encode())
                            for op2 in ("get_and_increment", "current"):
                                rec.case(True, ops=1)
                                try:
                                    v2 = call(inst, op2)
                                except Exception as e:
                                    rec.violation(f"C19.count/{_clsname(cls)}/unusable-after-a-refused-read/{type(e).__name__}", dict(case, then=op2), repr(e), good)
                                    break
                                exp2 = good if op2 == "get_and_increment" else (good + 1) % mod
                                if v2 != exp2:
                                    rec.violation(f"C19.count/{_clsname(cls)}/wrong-count-after-a-refused-read", dict(case, then=op2), v2, exp2)
                                    break
                        continue
                    except Exception as e:
                        rec.violation(f"C19.reject/{_clsname(cls)}/wrong-exception/{type(e).__name__}", case, repr(e), "ValueError")
                        continue
                    rec.violation(f"C19.reject/{_clsname(cls)}/accepted{wtag}", case, v, "ValueError")
        # the two extreme valid counts are accepted and continued from
        for val, term in ((0, "\n"), (mod - 1, "\n"), (mod - 1, "\r\n"), (min(7, mod - 1), "\r\n"), (mod - 1, "")):
            for op in OPS:
                # written as octets: a count file that came through a text-mode transfer / another platform ends in CR LF
                path.write_bytes(f"{val}{term}".encode())
                inst = make(mode, w0)
                case = {"kind": "accept", "cls": cls, "w": w, "content": f"{val}{term}", "op": op, "mode": mode}
                rec.case(True, ops=1)
                try:
                    v = call(inst, op)
                except Exception as e:
                    rec.violation(f"C19.count/{_clsname(cls)}/valid-file-content-refused{tag}", case, repr(e), val)
                    continue
                if v != val:
                    rec.violation(f"C19.count/{_clsname(cls)}/valid-file-content-wrong-value{tag}", case, v, val)
                rec.outcome("accept/value")
    # missing file
    for op in OPS:
        path.write_text("0\n")
        inst = make("ctor", w)
        path.unlink()
        case = {"kind": "missing", "cls": cls, "w": w, "op": op}
        rec.case(True, ops=1)
        try:
            v = call(inst, op)
        except FileNotFoundError:
            rec.outcome("missing/FileNotFoundError")
            continue
        except Exception as e:
            rec.violation(f"C19.missing/{_clsname(cls)}/wrong-exception/{type(e).__name__}", case, repr(e), "FileNotFoundError")
            continue
        rec.violation(f"C19.missing/{_clsname(cls)}/accepted", case, v, "FileNotFoundError")
    # a provider created on a path without a file starts the sequence at 0 and creates a valid file
    if path.exists():
        path.unlink()
    inst = make("ctor", w)
    rec.case(True, ops=2)
    if not path.exists() or inst.current() != 0 or next(inst) != 0:
        rec.violation(f"C19.count/{_clsname(cls)}/fresh-file-not-zero", {"kind": "fresh", "cls": cls, "w": w}, None, 0)


# --------------------------------------------------------------- shards
def _pairs(ws):
    return [(a, b) for a in ws for b in ws if a != b]


def shards(tier):
    q = tier == "quick"
    items = [{"kind": "mem", "w": w} for w in range(1, (10 if q else 16) + 1)]
    # in-memory: setter histories
    mem_ev = ["N", "G", "W1", "W2", "W3"]
    for w in (1, 2, 3):
        for first in mem_ev:
            items.append({"kind": "stateless", "cls": "mem", "w": w, "first": first, "events": mem_ev, "depth": 6 if q else 7})
    amem = list(range(1, 6 if q else 7))
    for w in amem:
        items.append({"kind": "bfs", "cls": "mem", "w": w, "widths": amem})
    for w1, w2 in _pairs((2, 5, 8, 10) if q else (2, 5, 8, 11, 14, 16)):
        items.append({"kind": "setcycle", "cls": "mem", "w1": w1, "w2": w2})
    items.append({"kind": "wide", "cls": "mem", "restart": False})
    # file-backed: exhaustive small widths
    for w in (1, 2, 3) if q else (1, 2, 3, 4):
        depth = min(2 * (1 << w) + 2, 8 if q else 10) if w < 3 else (7 if q else 8)
        for first in ([[a] for a in "NGCR"] if depth < 9 else [[a, b] for a in "NGCR" for b in "NGCR"]):  # deep ones: 16 shards
            items.append({"kind": "stateless", "cls": "file", "w": w, "first": first, "events": list("NGCR"), "depth": depth})
    set_ev = ["N", "G", "C", "R", "W1", "W2", "W3"]
    for w in (1, 2, 3):
        for first in set_ev:
            items.append({"kind": "stateless", "cls": "file", "w": w, "first": first, "events": set_ev, "depth": 5 if q else 6})
    # environment events: the file replaced by one with the same count (X), the file removed (D, ends the history)
    env_ev = list("NGCRXDKZ")
    for w in (1, 2):
        for first in env_ev:
            items.append({"kind": "stateless", "cls": "file", "w": w, "first": first, "events": env_ev, "depth": 5 if q else 6})
    for first in env_ev:
        items.append({"kind": "stateless", "cls": "pus", "w": 14, "first": first, "events": env_ev, "depth": 4 if q else 5})
    pus_ev = ["N", "G", "C", "R", "W1", "W3", "W14"]
    for first in pus_ev:
        items.append({"kind": "stateless", "cls": "pus", "w": 14, "first": first, "events": pus_ev, "depth": 5 if q else 6})
    afile = [1, 2, 3, 4] if q else [1, 2, 3, 4, 5, 7]
    for w in afile:
        items.append({"kind": "bfs", "cls": "file", "w": w, "widths": afile})
    # file-backed: full cycles
    for w in ((4, 5, 6, 7, 8, 10) if q else range(5, 15)):
        for r in (True, False):
            for near_top in (False, True):
                items.append({"kind": "cycle", "cls": "file", "w": w, "restart": r, "near_top": near_top})
    for r in (True, False):
        for near_top in (False, True):
            items.append({"kind": "cycle", "cls": "pus", "w": 14, "restart": r, "near_top": near_top})
    for w1, w2 in _pairs((2, 5, 8, 10) if q else (2, 5, 8, 11, 14)):
        items.append({"kind": "setcycle", "cls": "file", "w1": w1, "w2": w2})
    for r in (True, False):
        items.append({"kind": "wide", "cls": "file", "restart": r})
    for lazy in (False, True):
        for first in range(len(PROVS)):
            items.append({"kind": "interleave", "provs": PROVS, "lazy": lazy, "first": first, "depth": 5 if q else 7})
    for k in range(0, len(WIDE), 16):
        items.append({"kind": "reject", "cls": "file", "ws": list(WIDE[k:k + 16])})
    items.append({"kind": "reject", "cls": "pus", "ws": [14]})
    return items


def run_shard(item):
    rec = Rec(PROPERTY, item)
    _run(rec, item)
    return rec.result()


def _run(rec, item):
    k = item["kind"]
    if k == "mem":
        mem_history(rec, item["w"])
        return
    tmp = _tmpdir()
    try:
        if k == "stateless":
            stateless(rec, item["cls"], item["w"], list(item["events"]), item["depth"], tmp, item["first"])
        elif k == "bfs":
            bfs(rec, item["cls"], item["w"], item["widths"], tmp)
        elif k == "cycle":
            file_cycle(rec, item["cls"], item["w"], item["restart"], item["near_top"], tmp)
        elif k == "wide":
            wide(rec, item["cls"], item["restart"], tmp)
        elif k == "setcycle":
            setcycle(rec, item["cls"], item["w1"], item["w2"], tmp)
        elif k == "interleave":
            interleave(rec, item["provs"], item["lazy"], item["depth"], item["first"], tmp)
        elif k == "reject":
            for w in item["ws"]:
                reject(rec, item["cls"], w, tmp)
    finally:
        shutil.rmtree(tmp, ignore_errors=True)


def replay(case):
    rec = Rec(PROPERTY, "replay")
    k = case["kind"]
    if k == "mem":
        mem_history(rec, case["w"])
        return rec.result()
    tmp = _tmpdir()
    try:
        if k == "hist":
            cls = case["cls"]
            m = Machine(cls, case["w"], os.path.join(tmp, "replay.txt") if cls != "mem" else None, start=case.get("start"))
            seq = list(case["seq"])
            for i, ev in enumerate(seq):
                if not m.applicable(ev):
                    break
                r = m.apply(ev)
                if r:
                    for feat in (_feat(seq[: i + 1]), "bfs"):
                        rec.violation(_sig(r[0], cls, feat), case, r[1], r[2])
                    break
        elif k == "cycle":
            file_cycle(rec, case["cls"], case["w"], case["restart_every"], case["near_top"], tmp)
        elif k == "wide":
            wide(rec, case["cls"], case["restart_every"], tmp)
        elif k == "setcycle":
            setcycle(rec, case["cls"], case["w1"], case["w2"], tmp)
        elif k == "bfs":
            bfs(rec, case["cls"], case["w"], case["widths"], tmp)
        elif k == "interleave":
            interleave_one(rec, case["provs"], case["lazy"], case["seq"], tmp)
        else:  # reject / accept / missing / fresh
            reject(rec, case["cls"], case["w"], tmp)
    finally:
        shutil.rmtree(tmp, ignore_errors=True)
    return rec.result()
