#!/venv/bin/python
"""Rewrites the generated blocks of DESIGN.md:
  <!-- BEGIN GENERATED:seeded --> ... <!-- END GENERATED:seeded -->     table of seeded changes (seeded/*/meta.json + result.json)
  <!-- BEGIN GENERATED:asbuilt --> ... <!-- END GENERATED:asbuilt -->   RULE / BOUNDS / ASSUMPTIONS of every check as implemented
Run: /venv/bin/python tools/gen_design_tables.py"""
import glob
import importlib
import json
import os
import re
import sys
import textwrap

HERE = os.path.dirname(os.path.dirname(os.path.abspath(__file__)))
sys.path.insert(0, "/repo")
sys.path.insert(1, HERE)


def esc(s):
    return str(s).replace("|", "\\|").replace("\n", " ")


def seeded_block():
    rows = []
    stats = {"total": 0, "valid": 0, "caught": 0}
    for d in sorted(glob.glob(os.path.join(HERE, "seeded", "*", ""))):
        name = os.path.basename(d.rstrip("/"))
        try:
            meta = json.load(open(d + "meta.json"))
        except Exception:
            continue
        res = json.load(open(d + "result.json")) if os.path.exists(d + "result.json") else {}
        stats["total"] += 1
        valid = bool(res.get("valid_seed"))
        stats["valid"] += valid
        caught = res.get("caught_by") or []
        stats["caught"] += bool(caught)
        sigs = []
        for c in caught:
            sigs += [s.strip() for s in res["checks"][c]["signatures"][:2]]
        where = ", ".join(sorted({os.path.basename(f) for f in meta.get("files", [])})) or "?"
        what = meta.get("summary", "")
        what = what if len(what) <= 230 else what[:227] + "..."
        needs = meta.get("needs_to_manifest", "")
        needs = needs if len(needs) <= 200 else needs[:197] + "..."
        rows.append(f"| {name} | {meta.get('property')} | {esc(where)} | {esc(what)} | {esc(needs)} | "
                    f"{'yes' if valid else 'NO'} | {', '.join(caught) if caught else '**missed**'} | {esc('; '.join(sigs[:2]))} |")
    head = [f"{stats['total']} seeded changes, {stats['valid']} confirmed valid (demo passes on the unchanged tree, fails on the changed tree, all 304 "
            f"repository tests pass with the change), {stats['caught']} reported by at least one check (quick tier, exit 1 with a VIOLATION line).",
            "",
            "| seed | property | file(s) | change | needs in order to manifest | valid | caught by | first signature(s) |",
            "|---|---|---|---|---|---|---|---|"]
    return "\n".join(head + rows)


def asbuilt_block():
    out = []
    for i in range(1, 21):
        pid = "C%02d" % i
        try:
            m = importlib.import_module("checks." + pid.lower())
        except Exception as e:  # noqa: BLE001
            out.append(f"#### {pid}\n\n(not importable: {e})\n")
            continue
        out.append(f"#### {pid} — level `{m.LEVEL}`\n")
        out.append("*Rule (what is enumerated, what counts as a distinct case).* " + " ".join(str(getattr(m, "RULE", "")).split()) + "\n")
        b = getattr(m, "BOUNDS", {})
        out.append("*Bounds, quick.* " + " ".join(str(b.get("quick", "")).split()) + "\n")
        out.append("*Bounds, thorough.* " + " ".join(str(b.get("thorough", "")).split()) + "\n")
        a = getattr(m, "ASSUMPTIONS", [])
        if a:
            out.append("*Assumptions / readings.*\n\n" + "\n".join("* " + " ".join(str(x).split()) for x in a) + "\n")
        ev = os.path.join(HERE, "evidence", pid + ".json")
        if os.path.exists(ev):
            e = json.load(open(ev))
            c = e["coverage"]
            out.append(f"*Last committed evidence ({e['tier']}).* {c.get('evaluations')} cases, {c.get('states')} states, {c.get('transitions')} transitions / compared "
                       f"operations, {c.get('traces_validated_against_impl')} executions on the implementation, {c.get('distinct_observed_outcomes')} distinct observed outcomes, "
                       f"{e['wall_s']} s wall.\n")
    return "\n".join(out)


def main():
    p = os.path.join(HERE, "DESIGN.md")
    s = open(p, encoding="utf-8").read()
    for tag, fn in (("seeded", seeded_block), ("asbuilt", asbuilt_block)):
        a, b = f"<!-- BEGIN GENERATED:{tag} -->", f"<!-- END GENERATED:{tag} -->"
        if a not in s or b not in s:
            print("marker missing:", tag)
            continue
        i, j = s.index(a) + len(a), s.index(b)
        s = s[:i] + "\n" + fn() + "\n" + s[j:]
    open(p, "w", encoding="utf-8").write(s)
    print("DESIGN.md generated blocks rewritten")


if __name__ == "__main__":
    main()
