#!/bin/sh
# tools/apply_fix.sh <patch-number>: apply one drafted repair to /repo as its own commit, run the baseline tests
set -e
P=$(ls /verif/notes/candidate-fixes/$(printf %04d $1)-*.patch)
git -C /repo am -q "$P"
cd /repo && /venv/bin/python -m pytest -q -p no:cacheprovider 2>&1 | tail -1
git -C /repo log --oneline -1
