#!/venv/bin/python
"""Evaluate seeded property-breaking changes (DESIGN.md section 8).

  tools/seeded.py eval <dir> [--checks C06,C12] [--tier quick] [--keep-going]
      <dir> contains patch.diff, demo.py (exit 0 on the unchanged tree, exit 1 on the changed
      tree) and meta.json ({"property": "C06", ...}).  Steps, all in a scratch git worktree of
      /repo under /tmp (removed at the end, also on failure):
        1. demo.py on the clean worktree             -> must exit 0
        2. git apply patch.diff; full test-suite     -> must pass (same count as the clean tree)
        3. demo.py on the changed worktree           -> must exit != 0
        4. ./bin/check <ID> --tier <tier> --no-evidence with SPACEPACKETS_VERIF_REPO=<worktree>
           for the property's own check (and any --checks)  -> caught iff exit 1 + VIOLATION line
      Prints one summary line and writes <dir>/result.json.
  tools/seeded.py all [--tier quick]     evaluate every /verif/seeded/*/ and print the table
"""
import glob
import json
import os
import re
import shutil
import subprocess
import sys
import time

VERIF = os.path.dirname(os.path.dirname(os.path.abspath(__file__)))
PY = "/venv/bin/python"


def sh(cmd, cwd=None, env=None, timeout=3600):
    p = subprocess.run(cmd, cwd=cwd, env=env, shell=isinstance(cmd, str), stdout=subprocess.PIPE, stderr=subprocess.STDOUT, timeout=timeout)
    return p.returncode, p.stdout.decode("utf-8", "replace")


def pytest_count(wt):
    # the repository's tests share a file in the temporary directory: test runs of parallel evaluations are serialised
    import fcntl
    with open("/tmp/seeded-pytest.lock", "w") as lock:
        fcntl.flock(lock, fcntl.LOCK_EX)
        return _pytest_count(wt)


def _pytest_count(wt):
    rc, out = sh(f"{PY} -m pytest -q -p no:cacheprovider --timeout=900 2>&1 | tail -3", cwd=wt)
    m = re.search(r"(\d+) passed", out)
    failed = re.search(r"(\d+) (failed|error)", out)
    return (int(m.group(1)) if m else 0), (int(failed.group(1)) if failed else 0), out.strip().splitlines()[-1] if out.strip() else ""


def evaluate(d, checks=None, tier="quick"):
    d = os.path.abspath(d)
    meta = json.load(open(os.path.join(d, "meta.json")))
    prop = meta["property"]
    checks = checks or [prop]
    wt = f"/tmp/seeded-{os.getpid()}-{os.path.basename(d)}"
    res = {"dir": d, "property": prop, "tier": tier, "checks": {}, "at": time.strftime("%Y-%m-%dT%H:%M:%SZ", time.gmtime())}
    sh(["git", "-C", "/repo", "worktree", "prune"])
    rc, out = sh(["git", "-C", "/repo", "worktree", "add", "--detach", wt, "HEAD"])
    if rc != 0:
        raise SystemExit("cannot create worktree: " + out)
    try:
        env = dict(os.environ, PYTHONDONTWRITEBYTECODE="1", PYTHONHASHSEED="0")
        env.pop("SPACEPACKETS_VERIF_REPO", None)
        env["PYTHONPATH"] = wt  # demo.py must import the worktree's spacepackets, not the editable install
        demo = os.path.join(d, "demo.py")
        rc0, out0 = sh([PY, demo], cwd=wt, env=env, timeout=600)
        res["demo_clean_exit"] = rc0
        rc, out = sh(["git", "apply", os.path.join(d, "patch.diff")], cwd=wt)
        res["patch_applies"] = rc == 0
        if rc != 0:
            res["error"] = out[-500:]
            return res
        passed, failed, last = pytest_count(wt)
        res["tests_passed"], res["tests_failed"], res["tests_last_line"] = passed, failed, last
        rc1, out1 = sh([PY, demo], cwd=wt, env=env, timeout=600)
        res["demo_changed_exit"] = rc1
        res["demo_changed_tail"] = out1.strip()[-300:]
        res["valid_seed"] = rc0 == 0 and rc1 != 0 and failed == 0 and passed >= 304
        env2 = dict(env, SPACEPACKETS_VERIF_REPO=wt)
        env2.pop("PYTHONPATH", None)
        for c in checks:
            t0 = time.time()
            rc, out = sh([os.path.join(VERIF, "bin/check"), c, "--tier", tier, "--no-evidence"], cwd=VERIF, env=env2, timeout=7200)
            viol = [l for l in out.splitlines() if l.startswith("VIOLATION")]
            sigs = [l.strip().split(": observed")[0] for l in out.splitlines() if re.match(r"^  C\d\d\.", l)]
            res["checks"][c] = {"exit": rc, "violation_lines": len(viol), "signatures": sigs[:12], "wall_s": round(time.time() - t0, 1),
                                "caught": rc == 1 and len(viol) > 0, "tail": out.strip()[-400:] if rc not in (0, 1) else ""}
        res["caught_by"] = [c for c, r in res["checks"].items() if r["caught"]]
    finally:
        sh(["git", "-C", "/repo", "worktree", "remove", "--force", wt])
        shutil.rmtree(wt, ignore_errors=True)
        sh(["git", "-C", "/repo", "worktree", "prune"])
    return res


def line(res):
    return "%-28s prop=%s valid_seed=%s tests=%s/%s demo=%s->%s caught_by=%s %s" % (
        os.path.basename(res["dir"]), res["property"], res.get("valid_seed"), res.get("tests_passed"), res.get("tests_failed"),
        res.get("demo_clean_exit"), res.get("demo_changed_exit"), res.get("caught_by"),
        {c: r["signatures"][:2] for c, r in res.get("checks", {}).items()}) + "".join(
        " HARNESS-ERROR(%s exit=%s)" % (c, r.get("exit")) for c, r in res.get("checks", {}).items() if r.get("exit") not in (0, 1))


def main(argv):
    if not argv or argv[0] not in ("eval", "all"):
        print(__doc__)
        return 2
    tier = "quick"
    checks = None
    if "--tier" in argv:
        tier = argv[argv.index("--tier") + 1]
    if "--checks" in argv:
        checks = argv[argv.index("--checks") + 1].split(",")
    if argv[0] == "eval":
        res = evaluate(argv[1], checks, tier)
        json.dump(res, open(os.path.join(res["dir"], "result.json"), "w"), indent=1)
        print(line(res))
        return 0
    for d in sorted(glob.glob(os.path.join(VERIF, "seeded", "*", ""))):
        if not os.path.exists(os.path.join(d, "meta.json")):
            continue
        m = json.load(open(os.path.join(d, "meta.json")))
        res = evaluate(d.rstrip("/"), m.get("checks") or checks, tier)
        json.dump(res, open(os.path.join(res["dir"], "result.json"), "w"), indent=1)
        print(line(res), flush=True)
    return 0


if __name__ == "__main__":
    sys.exit(main(sys.argv[1:]))
