#!/venv/bin/python
"""Regenerates /verif/MANIFEST.json from the table below (kept in one place so that the
manifest is always valid).  Run: /venv/bin/python tools/gen_manifest.py"""
import json, os

HERE = os.path.dirname(os.path.dirname(os.path.abspath(__file__)))

# id: (engine, level, technique, text, note, design_ref)
CHECKS = {
    "C16": ("T", "model_checking",
            "TLC explicit-state model checking of a TLA+ model of the documented state machine + replay of every edge of the dumped state graph against the implementation (bisimulation on the bounded graph); plus explicit-state conformance of the implementation with a Python port of the table on a larger alphabet",
            "TLC proves the model's invariants/action properties (failed step sticky, all-received monotone and set only by rule, frame condition, step list growth, remove-completed exact) on all reachable states for 2 telecommands; every one of the ~9e5 labelled edges is then executed on a fresh real PusVerificator (real PusTc/Service1Tm objects, constructed and decoded) and the abstract state and the call's answer must match, so the properties transfer to the implementation inside the bound.",
            "the TLA+ model/table is my reading of the documented state machine; bounds: 2 telecommands (+1 unregistered), step list <= 2 (T), up to 3 step ids / list <= 4 / 3 telecommands (H)", "2.4, 4/C16"),
    "C19": ("H", "model_checking",
            "explicit-state exploration of call/restart histories of the real providers on a private file, integer-counter reference model",
            "Every history over {next, get_and_increment, current, restart} up to the depth bound, the state-hashed fixpoint for small widths, and a full cycle with a restart at every inter-call point for larger widths are executed on the real providers; every returned value and the file content after every call are compared with a counter modulo 2^w; the rejection alphabet must raise ValueError / FileNotFoundError.",
            "crash points = inter-call points only (as the property states); private temporary directory with ordinary POSIX file semantics", "4/C19"),
    "C13": ("H", "model_checking",
            "explicit enumeration of all append/parse schedules of bounded byte streams against the real parser, byte-string reference model",
            "Every schedule in {no cut, cut, cut+parse}^(n-1) of every stream in the bounded alphabet (or every cut set up to the cut bound for long streams) is executed on the real parse_space_packets with a real deque; after every call the returned packets and the queue content are compared with the byte-string model.",
            "garbage alphabet restricted to octets that cannot form a registered packet ID (asserted at generation time); single-threaded caller", "4/C13"),
    "C01": ("V", "exploration",
            "bounded-exhaustive enumeration of header words (each 16-bit word fully, K^2 backgrounds, edge product) against an independent reference encoder",
            "Every value of each of the three header words is executed against the real pack/unpack/from_raw/helpers and compared with a bit-field reference encoder; every out-of-range probe must raise ValueError. Complete for the stated sub-space, not for all 2^48 headers.",
            "trusts ref/ccsds.py (transcription of 133.0-B-2 4.1.3, bound to the repository's expected vectors by selftest) and CPython", "4/C01"),
}

PENDING = {  # not yet claimed in this commit (check still being built) -- shrinks as checks land
}

def main():
    props = [json.loads(l) for l in open(os.path.join(HERE, "properties.jsonl"))]
    checks = []
    for pid, (eng, level, tech, text, note, ref) in CHECKS.items():
        checks.append({
            "property_id": pid,
            "quick_cmd": f"./bin/check {pid} --tier quick",
            "thorough_cmd": f"./bin/check {pid} --tier thorough",
            "evidence_file": f"/verif/evidence/{pid}.json",
            "replay_cmd_template": f"./bin/check {pid} --replay {{path}}",
            "engine": eng,
            "level_claimed": {"category": level, "text": text, "design_ref": "DESIGN.md section " + ref},
            "level_note": note,
            "technique": tech,
        })
    na = []
    for p in props:
        if p["id"] not in CHECKS:
            na.append({"property_id": p["id"], "reason": PENDING.get(p["id"], "check under construction: bounded-exhaustive check designed in DESIGN.md section 4 but not yet implemented at this commit; not claimed until it runs")})
    doc = {
        "version": 1,
        "setup_cmd": "/venv/bin/python selftest/selftest.py",
        "hooks": {
            "guard": "SPACEPACKETS_VERIF",
            "enable": "no source hooks exist: every property is observable through the public API; checks import /repo's working tree directly (fresh interpreter per check, no build step)",
            "baseline_off_cmd": "cd /repo && /venv/bin/python -m pytest -ra -q -p no:cacheprovider --timeout=900 --continue-on-collection-errors",
            "source_commits": [],
            "add_only": True,
        },
        "engines": [
            {"name": "V", "path": "mc/vectors.py", "kind_free_text": "choice-vector explorer: complete enumeration of field/configuration vectors up to a deviation bound, each executed on the real classes and compared with independent reference codecs (ref/)", "serves_properties": ["C01","C02","C03","C05","C06","C07","C08","C12","C14","C15","C17","C18","C20"]},
            {"name": "F", "path": "mc/faults.py", "kind_free_text": "fault enumerator: every truncation / substitution / bit-burst / suffix of a corpus of valid packets", "serves_properties": ["C02","C03","C04","C08","C09","C10"]},
            {"name": "H", "path": "mc/histories.py", "kind_free_text": "explicit-state / stateless history explorer over the real objects with a plain-Python reference model", "serves_properties": ["C11","C13","C16","C19","C20"]},
            {"name": "T", "path": "mc/tlc.py", "kind_free_text": "TLC on models/PusVerificator.tla; the whole dumped state graph (every edge) is replayed against the implementation", "serves_properties": ["C16"]},
        ],
        "checks": checks,
        "not_applicable": na,
        "notes": "All checks are bounded-exhaustive explorations (model-checking family); see DESIGN.md. KNOWN_FINDINGS.txt lists repaired defects (fixed:) and findings.",
    }
    with open(os.path.join(HERE, "MANIFEST.json"), "w") as f:
        json.dump(doc, f, indent=1)
    print("wrote MANIFEST.json with", len(checks), "checks,", len(na), "not claimed")

if __name__ == "__main__":
    main()
