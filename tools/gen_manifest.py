#!/venv/bin/python
"""Regenerates /verif/MANIFEST.json from the table below (kept in one place so that the
manifest is always valid).  Run: /venv/bin/python tools/gen_manifest.py

A property is claimed only when its id is in CLAIMED; everything else goes to
not_applicable with the reason given in PENDING (or the default text)."""
import json, os

HERE = os.path.dirname(os.path.dirname(os.path.abspath(__file__)))

ENUM = "bounded-exhaustive model checking of the sequential code: explicit enumeration of every "
REFV = "; every enumerated case is one execution of the real implementation, compared step by step with an independent reference codec (ref/)"

# id: (engine, level, technique, text, note, design_ref)
CHECKS = {
    "C01": ("V", "model_checking",
            ENUM + "header word value (each 16-bit word fully, K^2 backgrounds, edge product) and every out-of-range probe" + REFV,
            "Every value of each of the three header words is executed against the real pack/unpack/from_raw/helpers and compared with a bit-field reference encoder; every out-of-range probe must raise ValueError. Complete for the stated sub-space, not for all 2^48 headers.",
            "trusts ref/ccsds.py (transcription of 133.0-B-2 4.1.3, bound to the repository's expected vectors by selftest) and CPython", "4/C01"),
    "C02": ("V", "model_checking",
            ENUM + "telecommand field vector within deviation bound 1 (full alphabets, K backgrounds), the edge product, every application-data string of <= 2 octets, boundary lengths, and every CRC-consistent forged packet with a too-small declared length" + REFV,
            "Every value of every TC field, the 8^6 edge product (also through from_sp_header / from_composite_fields), all 65 793 payloads of <= 2 octets and the boundary payload lengths are packed, decoded, re-packed and compared octet by octet with the reference encoder (own CRC-16 implementation); the rejection clause enumerates every declared length below the minimum with a forged consistent CRC for every APID.",
            "trusts ref/pus.py, ref/ccsds.py, ref/crc16.py (bound to the repository's vectors by selftest/st_ref_pus.py); two arbitrary non-edge values in two fields at once only in the K backgrounds", "4/C02"),
    "C03": ("V", "model_checking",
            ENUM + "telemetry field vector within deviation bound 1 in K backgrounds (each with its own timestamp length), pairs/triples of edge values, every timestamp and source-data string of <= 2 octets, boundary lengths, range refusals, and every CRC-consistent forged packet with a too-small declared length" + REFV,
            "As C02 for PUS-C TM with the decoder configured for every timestamp length of the alphabet; also Service17Tm and the space-packet view; PUS_TM_TIMESTAMP_OFFSET against the reference offset.",
            "trusts ref/pus.py (bound to repository vectors); timestamps > 32 octets and source data between 18 octets and the limit represented by 4 lengths", "4/C03"),
    "C05": ("V", "model_checking",
            ENUM + "CFDP fixed-header configuration (128 flag combinations x 16 width pairs), every data-field length (65 536), per-field ID sweeps, every (octet 0, octet 3) pair on the decoder side, and every documented refusal" + REFV,
            "All flag/width combinations, every length value, each ID field swept separately (full for widths 1-2, walk + per-octet full for 4-8) are packed and decoded against the 727.0-B-5 5.1 reference; the decoder is fed every (octet 0, octet 3) pair; mismatching widths, oversize lengths, wrong versions and undefined width codes must be refused.",
            "trusts ref/cfdp.py (bound to repository vectors by selftest/st_ref_cfdp.py)", "4/C05"),
    "C06": ("V", "model_checking",
            ENUM + "file-directive PDU parameter vector within deviation bound d (q: 2, t: 3) crossed with all 128 header configurations (CRC x large file x ID width x sequence width x mode); full products for ACK, Prompt and the Finished flag octet" + REFV,
            "For each of the seven directive kinds every parameter vector inside the bound, under every header configuration, is constructed, packed, compared octet by octet with the reference encoder (direction bit, directive code, big-endian fields, TLVs in order, CRC trailer), decoded, compared observable by observable and with ==, re-packed; the fit clause (value >= 2^32 in 32-bit fields) must make pack() raise.",
            "trusts ref/cfdp.py, ref/tlv.py; fault locations only with error condition codes; two arbitrary non-edge values of two parameters at once are outside the bound", "4/C06"),
    "C07": ("V", "model_checking",
            ENUM + "File Data PDU (256 header configurations x offset walk x file data of every length 0..20 and boundary lengths x segment metadata of every state and length 0..63; every 2-octet data string) and every (configuration, maximum packet length) pair of the segment-length helper" + REFV,
            "Every vector is packed, compared with the reference layout, decoded (offset, metadata, data exactly; decoded object's lengths), re-packed; oversize metadata must be refused; get_max_file_seg_len_for_max_packet_len_and_pdu_cfg is checked for every configuration and every M from base-2 to base+40 by building the PDU it promises.",
            "trusts ref/cfdp.py; file data between 21 and 65 535 octets represented by 5 lengths", "4/C07"),
    "C08": ("V", "model_checking",
            ENUM + "TLV/LV value (every octet string <= 2 octets, shaped strings of every length 3..255, all 256 type octets), concrete TLV parameter vectors, oversize refusals, and the full type-safety matrix (6 classes x 5 foreign types x unpack / from_tlv / holder)" + REFV,
            "Generic and concrete TLVs/LVs are packed, compared with the 727.0-B-5 5.4 reference, decoded and compared; packet_len == len(pack()) including multi-octet UTF-8 names; every foreign-type conversion must raise the mismatch error, never return an object.",
            "trusts ref/tlv.py (bound to repository vectors by selftest/st_ref_tlv.py); values of length 3..255 by 5 shaped contents per length", "4/C08"),
    "C12": ("V", "model_checking",
            ENUM + "(PDU kind x 128 header configurations x 2 ID schemes incl. IDs that look like directive codes x parameter sets) fed as reference octets to the factory, and the full 8x8 holder accessor matrix" + REFV,
            "PduFactory.from_raw must return exactly the kind's class, equal observables, identical re-pack; pdu_type / is_file_directive / pdu_directive_type must equal the reference extraction; every non-matching holder accessor must raise TypeError.",
            "factory is fed reference octets (that pack() produces them is C06/C07)", "4/C12"),
    "C13": ("H", "model_checking",
            "explicit enumeration of all append/parse schedules of bounded byte streams against the real parser, byte-string reference model",
            "Every schedule in {no cut, cut, cut+parse}^(n-1) of every stream in the bounded alphabet (or every cut set up to the cut bound for long streams) is executed on the real parse_space_packets with a real deque; after every call the returned packets and the queue content are compared with the byte-string model.",
            "garbage alphabet restricted to octets that cannot form a registered packet ID (asserted at generation time); single-threaded caller", "4/C13"),
    "C14": ("V", "model_checking",
            ENUM + "(day, ms) stamp of the bounded grid (all 65 536 days x boundary ms; edge days x every ms around every second boundary; t: every ms of four days), every from_datetime input of the date x time x ms grid, every (stamp, delta) addition of the grid incl. all midnight landings, all 256 P-fields and all short lengths" + REFV,
            "Octets, decode, datetime view (exact), Unix-seconds view (within 2^-20 s), strict monotonicity, from_datetime (exact floor for whole-ms datetimes), addition with day carry / OverflowError, refusals - against exact integer calendar arithmetic.",
            "trusts ref/cds.py and CPython datetime; tolerance 2^-20 s only for the float view (brute-forced attainable, DESIGN.md C14)", "4/C14"),
    "C16": ("T", "model_checking",
            "TLC explicit-state model checking of a TLA+ model of the documented state machine + replay of every edge of the dumped state graph against the implementation (bisimulation on the bounded graph); plus explicit-state conformance of the implementation with a Python port of the table on a larger alphabet",
            "TLC proves the model's invariants/action properties (failed step sticky, all-received monotone and set only by rule, frame condition, step list growth, remove-completed exact) on all reachable states for 2 telecommands; every one of the ~9e5 labelled edges is then executed on a fresh real PusVerificator (real PusTc/Service1Tm objects, constructed and decoded) and the abstract state and the call's answer must match, so the properties transfer to the implementation inside the bound.",
            "the TLA+ model/table is my reading of the documented state machine; bounds: 2 telecommands (+1 unregistered), step list <= 2 (T), up to 3 step ids / list <= 4 / 3 telecommands (H)", "2.4, 4/C16"),
    "C17": ("V", "model_checking",
            ENUM + "USLP primary / truncated header field vector (SCID and frame length full(16), VCID/MAP full, VCF lengths 0..7 x count walk, K backgrounds), out-of-range IDs, and every transfer frame of the (kind x rule x UPID x TFDZ length x insert zone x OCF x FECF) product with the matching and every detectable mismatching managed-parameter set" + REFV,
            "Headers and frames are packed, compared with the 732.1-B-2 reference, len() and the frame-length field checked, decoded with matching parameters and compared; every detectable parameter mismatch must raise a Uslp*/ValueError.",
            "trusts ref/uslp.py (bound to tests/test_uslp.py vectors); undetectable parameter mismatches are not demanded", "4/C17"),
    "C18": ("V", "model_checking",
            ENUM + "reserved CFDP message of the nine kinds over all parameter values of the bounded alphabets, every message-type octet, and every non-reserved content of the alphabet (all strings <= 2 octets, one-octet-off markers, non-UTF-8 octets)" + REFV,
            "pack() against the section-6 reference, classification predicates, matching get_* returns the original parameters (widths included), every non-matching get_* returns None; non-reserved contents must answer False / None without raising.",
            "trusts ref/tlv.py; listing-options layout is a library extension taken from its documentation", "4/C18"),
    "C19": ("H", "model_checking",
            "explicit-state exploration of call/restart histories of the real providers on a private file, integer-counter reference model",
            "Every history over {next, get_and_increment, current, restart} up to the depth bound, the state-hashed fixpoint for small widths, and a full cycle with a restart at every inter-call point for larger widths are executed on the real providers; every returned value and the file content after every call are compared with a counter modulo 2^w; the rejection alphabet must raise ValueError / FileNotFoundError.",
            "crash points = inter-call points only (as the property states); private temporary directory with ordinary POSIX file semantics", "4/C19"),
    "C20": ("V", "model_checking",
            ENUM + "(width, value) byte field (widths 0-2 fully, half-word / octet sweeps in K backgrounds + walk for widths 4 and 8), every refusal probe, every depth-2 setter history, every ordered pair of the edge product for ==/hash, every helper conversion" + REFV,
            "Octet/int/len/hex views, every from-octets entry point with and without trailing octets, ==/hash <=> (value, width), ValueError refusals, IntByteConversion helpers against two's-complement big-endian encoding.",
            "oracle is int.to_bytes / int.from_bytes; empty-field reading as in DESIGN.md 5.6", "4/C20"),
    "C04": ("F", "fault_enumeration",
            "exhaustive fault enumeration (model-checking family, engine F): every single-bit flip and every burst pattern up to 16 bits at every admissible bit offset of every corpus packet, executed on the real decoders",
            "For every CRC-protected corpus packet (PUS TC/TM, service wrappers, all eight CFDP PDU kinds with the CRC flag) every corruption of the family is fed to the class decoder, the factory and check_pus_crc; returning an object is a violation. The uncorrupted clause compares every packed trailer (also after setter histories) with an independent CRC-16 implementation.",
            "length-determining fields and the CFDP CRC-flag bit excluded as the property / format require (DESIGN.md C04); CRC-16 detects all bursts <= 16 bits by construction, so a miss is always a coverage defect of the code", "4/C04"),
    "C09": ("F", "fault_enumeration",
            "exhaustive fault enumeration (model-checking family, engine F): every suffix of the suffix alphabet appended to every corpus unit of every kind, and every ordered pair/triple of units split by reported lengths, executed on the real decoders against the unfaulted decode and the reference",
            "Self-delimiting units must decode identically with any continuation and report their own length; CFDP PDUs must decode exactly or be refused with a documented error - trailing octets and the CRC trailer never enter the parameters.",
            "suffix alphabet is finite (all single octets, runs, format look-alikes, other corpus units)", "4/C09"),
    "C10": ("F", "fault_enumeration",
            "exhaustive fault enumeration (model-checking family, engine F): every octet string <= 2 (3) octets, every strict prefix and every single-octet substitution in the first 40 octets of every corpus unit, through every public decode entry point under a watchdog",
            "Each call must return or raise a documented error class; IndexError/struct.error/TypeError/AttributeError/KeyError/AssertionError/anything else or a hang is a violation; every strict prefix of a self-delimiting unit must be refused.",
            "documented set as listed in DESIGN.md C10; ReservedCfdpMessage.get_* parsers out of scope", "4/C10"),
    "C11": ("H", "model_checking",
            "explicit-state / stateless exploration of every setter history up to the depth bound on the real packet objects (constructed and decoded start states), plain-dict reference model + fresh-construction differential oracle; purity clause by deep dumps of caller objects",
            "At every state: reported length == packed length, length field parsed from the octets == format requirement, octets == reference encoding of the model's final values == fresh construction, pack twice identical and equality unchanged; constructors and pack() never modify caller-supplied configuration/parameter objects.",
            "event menus and argument alphabets as listed in DESIGN.md C11", "4/C11"),
    "C15": ("V", "model_checking",
            ENUM + "request-ID word value (each 16-bit word fully in K^2 backgrounds, single-bit neighbours for ==/hash, three construction routes) and every service-1 report of the (subservice x step width/value x code width/value x failure data x timestamp length x TC header) product incl. all mismatching parameter sets" + REFV,
            "Request ID octets / u32 / decode against the first four reference header octets; report source data layout against the reference; decode with matching widths returns the same values, re-packs identically, == original; mismatching parameter sets refused with InvalidVerifParams.",
            "trusts ref/pus.py", "4/C15"),
}

# checks that exist, are silent on the repaired tree and reproduce the known defects on the snapshot
CLAIMED = ["C%02d" % i for i in range(1, 21)]

PENDING = {  # not yet claimed at this commit (check still being built) -- shrinks as checks land
}


HIST = {"C01", "C02", "C03", "C05", "C08", "C12", "C14", "C15", "C17", "C19", "C20"}
INDEP = {"C01", "C02", "C03", "C05", "C06", "C07", "C08", "C12", "C13", "C14", "C15", "C16", "C17", "C18", "C20"}
HIST_TXT = (" In addition every sequence up to depth 3 (quick) / 4 (thorough) over the class's public mutators and observers (pack, lengths, ==, hash, derived views) is run from "
            "constructed and decoded start states and compared at every step with the reference encoding of a plain-dict model (read-then-set-then-read exposes stale caches).")
INDEP_TXT = (" The independence oracle (mc/alias.py) re-observes every object and every pack() result handed out for earlier cases after the following cases, so state shared "
             "between results (template objects, caches, output buffers) is detected; every shard runs in a fresh process.")


def main():
    for pid in list(CHECKS):
        eng, level, tech, text, note, ref = CHECKS[pid]
        if pid in HIST:
            text += HIST_TXT
            tech += "; explicit-state exploration of setter/observer histories"
        if pid in INDEP:
            text += INDEP_TXT
        CHECKS[pid] = (eng, level, tech, text, note, ref)
    props = [json.loads(l) for l in open(os.path.join(HERE, "properties.jsonl"))]
    checks = []
    for pid in sorted(CLAIMED):
        eng, level, tech, text, note, ref = CHECKS[pid]
        checks.append({
            "property_id": pid,
            "quick_cmd": f"./bin/check {pid} --tier quick",
            "thorough_cmd": f"./bin/check {pid} --tier thorough",
            "evidence_file": f"/verif/evidence/{pid}.json",
            "replay_cmd_template": f"./bin/check {pid} --replay {{path}}",
            "engine": eng,
            "level_claimed": {"category": level, "text": text, "design_ref": "DESIGN.md section " + ref},
            "level_note": note,
            "technique": tech,
        })
    na = []
    for p in props:
        if p["id"] not in CLAIMED:
            na.append({"property_id": p["id"], "reason": PENDING.get(p["id"], "check under construction: bounded-exhaustive check designed in DESIGN.md section 4 but not yet implemented and validated at this commit; not claimed until it runs silently on the repaired tree and reproduces the known defects")})
    def serves(e):
        return sorted(k for k, v in CHECKS.items() if v[0] == e)
    doc = {
        "version": 1,
        "setup_cmd": "/venv/bin/python selftest/selftest.py",
        "hooks": {
            "guard": "SPACEPACKETS_VERIF",
            "enable": "no source hooks exist: every property is observable through the public API; checks import /repo's working tree directly (fresh interpreter per check, no build step)",
            "baseline_off_cmd": "cd /repo && /venv/bin/python -m pytest -ra -q -p no:cacheprovider --timeout=900 --continue-on-collection-errors",
            "source_commits": [],
            "add_only": True,
        },
        "engines": [
            {"name": "V", "path": "mc/domains.py", "kind_free_text": "choice-vector explorer: complete enumeration of field/configuration vectors up to a deviation bound (alphabets in mc/domains.py, enumeration in each checks/cNN.py), each executed on the real classes and compared with independent reference codecs (ref/)", "serves_properties": serves("V")},
            {"name": "F", "path": "checks/", "kind_free_text": "fault enumerator: every truncation / substitution / bit-burst / suffix of a corpus of valid packets (units/), executed on the real decoders", "serves_properties": serves("F")},
            {"name": "H", "path": "checks/", "kind_free_text": "explicit-state / stateless history explorer over the real objects with a plain-Python reference model", "serves_properties": serves("H")},
            {"name": "T", "path": "mc/tlc.py", "kind_free_text": "TLC on models/PusVerificator.tla; the whole dumped state graph (every edge) is replayed against the implementation", "serves_properties": serves("T")},
        ],
        "checks": checks,
        "not_applicable": na,
        "notes": "All checks are bounded-exhaustive explorations (model-checking family); see DESIGN.md. KNOWN_FINDINGS.txt lists repaired defects (fixed:) and findings. mc/runner.py is the common runner (sharding over 16 workers, evidence, replay, known-findings).",
    }
    with open(os.path.join(HERE, "MANIFEST.json"), "w") as f:
        json.dump(doc, f, indent=1)
    print("wrote MANIFEST.json with", len(checks), "checks,", len(na), "not claimed")


if __name__ == "__main__":
    main()
