#!/bin/sh
# tools/run_all.sh [quick|thorough] [--no-evidence]: every check of the manifest, one after the other; prints one line each
TIER=${1:-quick}; shift
cd "$(dirname "$0")/.."
rc=0
for i in 01 02 03 04 05 06 07 08 09 10 11 12 13 14 15 16 17 18 19 20; do
  s=$(date +%s)
  out=$(./bin/check C$i --tier $TIER "$@" 2>&1); e=$?
  echo "C$i exit=$e wall=$(( $(date +%s) - s ))s $(echo "$out" | grep -c '^VIOLATION') violation line(s)"
  [ $e -ne 0 ] && { echo "$out" | tail -15; rc=1; }
done
exit $rc
