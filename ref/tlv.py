"""Reference encoders for CFDP LV / TLV items (CCSDS 727.0-B-5 section 5.4) and for the
reserved CFDP messages carried in message-to-user TLVs (section 6).  Literal
transcriptions of the field tables on top of ref/bits.py; never imports the library.

Choices made where the text leaves room (stated here, used by C08/C18):

* File names are octet strings in the standard; callers hand UTF-8 octets (the library
  documents `str` names and encodes them as UTF-8).
* Second file name LV (tables 5-15 request / 5-17 response): "present only for some
  action codes" - table 5-16 marks exactly RENAME, APPEND and REPLACE as carrying a
  second file name.  The reference therefore emits the second-name LV for those three
  action codes (even when the name is empty: LV of length 0) and omits it for the six
  one-name actions, for the request and for the response alike.
* Filestore message LV of the response (table 5-17) is always present, length 0 when
  there is no message.
* Message type 0x15 "directory listing options" is NOT in 727.0-B-5: it is a custom
  message of the library (documented in spacepackets/cfdp/tlv/defs.py).  Layout taken
  from that documentation: spare 6 | recursive 1 | all 1.
* The remote status / suspend / resume messages (0x20...0x39) are transcribed for
  completeness; the library has no builder for them, no check uses them and no
  repository vector binds them.
"""

from __future__ import annotations

from ref.bits import pack_fields
from ref.bits import RefInputError  # noqa: E402

# -- TLV type octets (727.0-B-5 table 5-3 "field type" values of 5.4) --------------------
T_FILESTORE_REQUEST = 0x00
T_FILESTORE_RESPONSE = 0x01
T_MESSAGE_TO_USER = 0x02
T_FAULT_HANDLER = 0x04
T_FLOW_LABEL = 0x05
T_ENTITY_ID = 0x06
DEFINED_TYPES = (0x00, 0x01, 0x02, 0x04, 0x05, 0x06)

# -- filestore action codes (table 5-16) -------------------------------------------------
A_CREATE_FILE, A_DELETE_FILE, A_RENAME_FILE, A_APPEND_FILE, A_REPLACE_FILE = 0, 1, 2, 3, 4
A_CREATE_DIR, A_REMOVE_DIR, A_DENY_FILE, A_DENY_DIR = 5, 6, 7, 8
ACTION_CODES = tuple(range(9))
TWO_NAME_ACTIONS = (A_RENAME_FILE, A_APPEND_FILE, A_REPLACE_FILE)

# -- filestore response status codes (table 5-18), action -> 4-bit codes ------------------
# Informational: the alphabet of C08 is "the status codes the library's enum defines for
# the action" (the property says "the matching status codes"); this table is what the
# standard lists and is reported next to it in the evidence.
STD_STATUS_CODES = {
    A_CREATE_FILE: (0b0000, 0b0001, 0b1111),
    A_DELETE_FILE: (0b0000, 0b0001, 0b0010, 0b1111),
    A_RENAME_FILE: (0b0000, 0b0001, 0b0010, 0b0011, 0b1111),
    A_APPEND_FILE: (0b0000, 0b0001, 0b0010, 0b0011, 0b1111),
    A_REPLACE_FILE: (0b0000, 0b0001, 0b0010, 0b0011, 0b1111),
    A_CREATE_DIR: (0b0000, 0b0001, 0b1111),
    A_REMOVE_DIR: (0b0000, 0b0001, 0b0010, 0b1111),
    A_DENY_FILE: (0b0000, 0b0010, 0b1111),
    A_DENY_DIR: (0b0000, 0b0010, 0b1111),
}


# The same table by MEANING (727.0-B-5 table 5-18): (action, meaning) -> status nibble.  The meanings are the words of the
# table; the library's enum member names for them are matched in checks/c08.py.
STD_STATUS_BY_MEANING = {
    (A_CREATE_FILE, "successful"): 0b0000, (A_CREATE_FILE, "create not allowed"): 0b0001, (A_CREATE_FILE, "not performed"): 0b1111,
    (A_DELETE_FILE, "successful"): 0b0000, (A_DELETE_FILE, "file does not exist"): 0b0001, (A_DELETE_FILE, "delete not allowed"): 0b0010,
    (A_DELETE_FILE, "not performed"): 0b1111,
    (A_RENAME_FILE, "successful"): 0b0000, (A_RENAME_FILE, "old file name does not exist"): 0b0001, (A_RENAME_FILE, "new file name already exists"): 0b0010,
    (A_RENAME_FILE, "rename not allowed"): 0b0011, (A_RENAME_FILE, "not performed"): 0b1111,
    (A_APPEND_FILE, "successful"): 0b0000, (A_APPEND_FILE, "file name 1 does not exist"): 0b0001, (A_APPEND_FILE, "file name 2 does not exist"): 0b0010,
    (A_APPEND_FILE, "append not allowed"): 0b0011, (A_APPEND_FILE, "not performed"): 0b1111,
    (A_REPLACE_FILE, "successful"): 0b0000, (A_REPLACE_FILE, "file name 1 does not exist"): 0b0001, (A_REPLACE_FILE, "file name 2 does not exist"): 0b0010,
    (A_REPLACE_FILE, "replace not allowed"): 0b0011, (A_REPLACE_FILE, "not performed"): 0b1111,
    (A_CREATE_DIR, "successful"): 0b0000, (A_CREATE_DIR, "directory cannot be created"): 0b0001, (A_CREATE_DIR, "not performed"): 0b1111,
    (A_REMOVE_DIR, "successful"): 0b0000, (A_REMOVE_DIR, "directory does not exist"): 0b0001, (A_REMOVE_DIR, "delete not allowed"): 0b0010,
    (A_REMOVE_DIR, "not performed"): 0b1111,
    (A_DENY_FILE, "successful"): 0b0000, (A_DENY_FILE, "delete not allowed"): 0b0010, (A_DENY_FILE, "not performed"): 0b1111,
    (A_DENY_DIR, "successful"): 0b0000, (A_DENY_DIR, "delete not allowed"): 0b0010, (A_DENY_DIR, "not performed"): 0b1111,
}
assert {a: tuple(sorted(v for (b, _m), v in STD_STATUS_BY_MEANING.items() if b == a)) for a in STD_STATUS_CODES} == STD_STATUS_CODES


# ------------------------------------------------------------------------------ 5.4 basics
def lv(value: bytes) -> bytes:
    """LV: length 8 | value (length octets)."""
    value = bytes(value)
    if len(value) > 255:
        raise RefInputError("reference LV given more than 255 octets")
    return pack_fields([(len(value), 8)]) + value


def tlv(tlv_type: int, value: bytes) -> bytes:
    """TLV: type 8 | length 8 | value."""
    value = bytes(value)
    if len(value) > 255:
        raise RefInputError("reference TLV given more than 255 octets")
    return pack_fields([(tlv_type, 8), (len(value), 8)]) + value


# ------------------------------------------------------------------------- concrete TLVs
def entity_id_tlv(entity_id: bytes) -> bytes:
    return tlv(T_ENTITY_ID, entity_id)


def flow_label_tlv(label: bytes) -> bytes:
    return tlv(T_FLOW_LABEL, label)


def fault_handler_value(condition_code: int, handler_code: int) -> bytes:
    return pack_fields([(condition_code, 4), (handler_code, 4)])


def fault_handler_override_tlv(condition_code: int, handler_code: int) -> bytes:
    return tlv(T_FAULT_HANDLER, fault_handler_value(condition_code, handler_code))


def filestore_request_value(action: int, first_name: bytes, second_name: bytes = b"") -> bytes:
    out = pack_fields([(action, 4), (0, 4)]) + lv(first_name)
    if action in TWO_NAME_ACTIONS:
        out += lv(second_name)
    return out


def filestore_request_tlv(action: int, first_name: bytes, second_name: bytes = b"") -> bytes:
    return tlv(T_FILESTORE_REQUEST, filestore_request_value(action, first_name, second_name))


def filestore_response_value(action: int, status: int, first_name: bytes, second_name: bytes = b"", fs_msg: bytes = b"") -> bytes:
    out = pack_fields([(action, 4), (status, 4)]) + lv(first_name)
    if action in TWO_NAME_ACTIONS:
        out += lv(second_name)
    return out + lv(fs_msg)


def filestore_response_tlv(action: int, status: int, first_name: bytes, second_name: bytes = b"", fs_msg: bytes = b"") -> bytes:
    return tlv(T_FILESTORE_RESPONSE, filestore_response_value(action, status, first_name, second_name, fs_msg))


def msg_to_user_tlv(msg: bytes) -> bytes:
    return tlv(T_MESSAGE_TO_USER, msg)


def filestore_common_len(action: int, first_name: bytes, second_name: bytes = b"") -> int:
    """TLV header + action octet + name LV(s) - what both filestore TLVs have in common."""
    n = 2 + 1 + 1 + len(first_name)
    if action in TWO_NAME_ACTIONS:
        n += 1 + len(second_name)
    return n


# ------------------------------------------------------------- section 6 reserved messages
MARKER = bytes([0x63, 0x66, 0x64, 0x70])  # ASCII "cfdp"

M_PROXY_PUT_REQUEST = 0x00
M_PROXY_MSG_TO_USER = 0x01
M_PROXY_FS_REQUEST = 0x02
M_PROXY_FAULT_HANDLER_OVERRIDE = 0x03
M_PROXY_TRANSMISSION_MODE = 0x04
M_PROXY_FLOW_LABEL = 0x05
M_PROXY_SEGMENTATION_CONTROL = 0x06
M_PROXY_PUT_RESPONSE = 0x07
M_PROXY_FS_RESPONSE = 0x08
M_PROXY_PUT_CANCEL = 0x09
M_ORIGINATING_TRANSACTION_ID = 0x0A
M_PROXY_CLOSURE_REQUEST = 0x0B
M_DIR_LISTING_REQUEST = 0x10
M_DIR_LISTING_RESPONSE = 0x11
M_DIR_LISTING_OPTIONS = 0x15  # library-specific, see module docstring
M_REMOTE_STATUS_REPORT_REQUEST = 0x20
M_REMOTE_STATUS_REPORT_RESPONSE = 0x21
M_REMOTE_SUSPEND_REQUEST = 0x30
M_REMOTE_SUSPEND_RESPONSE = 0x31
M_REMOTE_RESUME_REQUEST = 0x38
M_REMOTE_RESUME_RESPONSE = 0x39

# message types whose name says "proxy" (table 6-1 without the originating transaction ID)
PROXY_TYPES = (0x00, 0x01, 0x02, 0x03, 0x04, 0x05, 0x06, 0x07, 0x08, 0x09, 0x0B)
DIRECTORY_TYPES = (0x10, 0x11, 0x15)


def reserved_value(msg_type: int, fields: bytes = b"") -> bytes:
    return MARKER + pack_fields([(msg_type, 8)]) + bytes(fields)


def reserved_msg(msg_type: int, fields: bytes = b"") -> bytes:
    """message-to-user TLV whose value is 'cfdp' | message type 8 | fields"""
    return msg_to_user_tlv(reserved_value(msg_type, fields))


def proxy_put_request(dest_entity_id: bytes, source_name: bytes, dest_name: bytes) -> bytes:
    return reserved_msg(M_PROXY_PUT_REQUEST, lv(dest_entity_id) + lv(source_name) + lv(dest_name))


def proxy_msg_to_user(text: bytes) -> bytes:
    return reserved_msg(M_PROXY_MSG_TO_USER, lv(text))


def proxy_filestore_request(action: int, first_name: bytes, second_name: bytes = b"") -> bytes:
    return reserved_msg(M_PROXY_FS_REQUEST, lv(filestore_request_value(action, first_name, second_name)))


def proxy_fault_handler_override(condition_code: int, handler_code: int) -> bytes:
    return reserved_msg(M_PROXY_FAULT_HANDLER_OVERRIDE, fault_handler_value(condition_code, handler_code))


def proxy_transmission_mode(mode: int) -> bytes:
    return reserved_msg(M_PROXY_TRANSMISSION_MODE, pack_fields([(0, 7), (mode, 1)]))


def proxy_flow_label(label: bytes) -> bytes:
    return reserved_msg(M_PROXY_FLOW_LABEL, lv(label))


def proxy_segmentation_control(seg_ctrl: int) -> bytes:
    return reserved_msg(M_PROXY_SEGMENTATION_CONTROL, pack_fields([(0, 7), (seg_ctrl, 1)]))


def proxy_put_response(condition_code: int, delivery_code: int, file_status: int) -> bytes:
    return reserved_msg(M_PROXY_PUT_RESPONSE, pack_fields([(condition_code, 4), (0, 1), (delivery_code, 1), (file_status, 2)]))


def proxy_filestore_response(action: int, status: int, first_name: bytes, second_name: bytes = b"", fs_msg: bytes = b"") -> bytes:
    return reserved_msg(M_PROXY_FS_RESPONSE, lv(filestore_response_value(action, status, first_name, second_name, fs_msg)))


def proxy_put_cancel() -> bytes:
    return reserved_msg(M_PROXY_PUT_CANCEL)


def transaction_id_fields(source_entity_id: bytes, seq_num: bytes) -> bytes:
    """spare 1 | entity-ID length - 1 (3) | spare 1 | sequence-number length - 1 (3) | ID | seq"""
    if not (1 <= len(source_entity_id) <= 8 and 1 <= len(seq_num) <= 8):
        raise RefInputError("reference transaction ID widths are 1...8 octets")
    return pack_fields([(0, 1), (len(source_entity_id) - 1, 3), (0, 1), (len(seq_num) - 1, 3)]) + bytes(source_entity_id) + bytes(seq_num)


def originating_transaction_id(source_entity_id: bytes, seq_num: bytes) -> bytes:
    return reserved_msg(M_ORIGINATING_TRANSACTION_ID, transaction_id_fields(source_entity_id, seq_num))


def proxy_closure_request(closure_requested: int) -> bytes:
    return reserved_msg(M_PROXY_CLOSURE_REQUEST, pack_fields([(0, 7), (closure_requested, 1)]))


def dir_listing_request(dir_name: bytes, dir_file_name: bytes) -> bytes:
    return reserved_msg(M_DIR_LISTING_REQUEST, lv(dir_name) + lv(dir_file_name))


def dir_listing_response(success: int, dir_name: bytes, dir_file_name: bytes) -> bytes:
    """listing response code 1 | spare 7 | directory name LV | directory file name LV.
    The library's `listing_success=True` is carried as the bit value 1 (its documentation and
    tests/cfdp/tlvslvs/test_reserved_cfdp_msg.py::test_dir_listing_response_pack)."""
    return reserved_msg(M_DIR_LISTING_RESPONSE, pack_fields([(success, 1), (0, 7)]) + lv(dir_name) + lv(dir_file_name))


def dir_listing_options(recursive: int, all_: int) -> bytes:
    return reserved_msg(M_DIR_LISTING_OPTIONS, pack_fields([(0, 6), (recursive, 1), (all_, 1)]))


# -- transcribed for completeness; unused (no library counterpart, no vector) --------------
def remote_status_report_request(source_entity_id: bytes, seq_num: bytes, report_file_name: bytes) -> bytes:
    return reserved_msg(M_REMOTE_STATUS_REPORT_REQUEST, transaction_id_fields(source_entity_id, seq_num) + lv(report_file_name))


def remote_status_report_response(transaction_status: int, response_code: int, source_entity_id: bytes, seq_num: bytes) -> bytes:
    return reserved_msg(M_REMOTE_STATUS_REPORT_RESPONSE, pack_fields([(transaction_status, 2), (0, 5), (response_code, 1)]) + transaction_id_fields(source_entity_id, seq_num))


def remote_suspend_request(source_entity_id: bytes, seq_num: bytes) -> bytes:
    return reserved_msg(M_REMOTE_SUSPEND_REQUEST, transaction_id_fields(source_entity_id, seq_num))


def remote_suspend_response(suspension_indicator: int, transaction_status: int, source_entity_id: bytes, seq_num: bytes) -> bytes:
    return reserved_msg(M_REMOTE_SUSPEND_RESPONSE, pack_fields([(suspension_indicator, 1), (transaction_status, 2), (0, 5)]) + transaction_id_fields(source_entity_id, seq_num))


def remote_resume_request(source_entity_id: bytes, seq_num: bytes) -> bytes:
    return reserved_msg(M_REMOTE_RESUME_REQUEST, transaction_id_fields(source_entity_id, seq_num))


def remote_resume_response(suspension_indicator: int, transaction_status: int, source_entity_id: bytes, seq_num: bytes) -> bytes:
    return reserved_msg(M_REMOTE_RESUME_RESPONSE, pack_fields([(suspension_indicator, 1), (transaction_status, 2), (0, 5)]) + transaction_id_fields(source_entity_id, seq_num))
