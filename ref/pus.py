"""ECSS-E-ST-70-41C (PUS-C) reference encoders: telecommand, telemetry, request ID and
service-1 source data.  Literal transcriptions of the field tables, built only on
ref/bits.py, ref/crc16.py and ref/ccsds.py; the library under test is never imported.

TC   = primary header (type 1, sec-hdr 1, seq flags 3, len = total-7)
       | version 4 (=2) | ack 4 | service 8 | subservice 8 | source id 16
       | application data | CRC-16/CCITT-FALSE of all preceding octets
TM   = primary header (type 0, sec-hdr 1, seq flags 3, len = total-7)
       | version 4 (=2) | time ref 4 | service 8 | subservice 8 | msg counter 16 | dest id 16 | time n
       | source data | CRC-16/CCITT-FALSE of all preceding octets
"""
from .bits import pack_fields
from .ccsds import sp_header
from .crc16 import _TABLE, crc16, with_crc

PUS_C = 2
TC, TM = 1, 0
UNSEGMENTED = 3
TC_SEC_HEADER_LEN = 5
TM_SEC_HEADER_MIN_LEN = 7
TM_TIMESTAMP_OFFSET = 6 + TM_SEC_HEADER_MIN_LEN  # 13
TC_MIN_LEN = 6 + TC_SEC_HEADER_LEN + 2  # 13
MAX_TC_APP_DATA = 65536 - TC_SEC_HEADER_LEN - 2  # 65529: data field <= 65536 octets


def tm_min_len(timestamp_len: int) -> int:
    return 6 + TM_SEC_HEADER_MIN_LEN + timestamp_len + 2


def max_tm_source_data(timestamp_len: int) -> int:
    return 65536 - TM_SEC_HEADER_MIN_LEN - timestamp_len - 2


def uint(value: int, width_octets: int) -> bytes:
    return pack_fields([(value, 8 * width_octets)])


# ------------------------------------------------------------------------------ TC
def tc_sec_header(ack_flags, service, subservice, source_id) -> bytes:
    return pack_fields([(PUS_C, 4), (ack_flags, 4), (service, 8), (subservice, 8), (source_id, 16)])


def tc(service, subservice, apid=0, seq_count=0, source_id=0, ack_flags=0b1111, app_data=b"", version=0, seq_flags=UNSEGMENTED) -> bytes:
    app_data = bytes(app_data)
    total = 6 + TC_SEC_HEADER_LEN + len(app_data) + 2
    body = sp_header(version, TC, 1, apid, seq_flags, seq_count, total - 7) + tc_sec_header(ack_flags, service, subservice, source_id) + app_data
    return with_crc(body)


# ------------------------------------------------------------------------------ TM
def tm_sec_header(time_ref, service, subservice, msg_counter, dest_id, timestamp=b"") -> bytes:
    return pack_fields([(PUS_C, 4), (time_ref, 4), (service, 8), (subservice, 8), (msg_counter, 16), (dest_id, 16)]) + bytes(timestamp)


def tm(service, subservice, timestamp=b"", source_data=b"", apid=0, seq_count=0, msg_counter=0, time_ref=0, dest_id=0, version=0, seq_flags=UNSEGMENTED) -> bytes:
    timestamp, source_data = bytes(timestamp), bytes(source_data)
    total = 6 + TM_SEC_HEADER_MIN_LEN + len(timestamp) + len(source_data) + 2
    body = (sp_header(version, TM, 1, apid, seq_flags, seq_count, total - 7)
            + tm_sec_header(time_ref, service, subservice, msg_counter, dest_id, timestamp) + source_data)
    return with_crc(body)


def srv17_tm(subservice, timestamp=b"", source_data=b"", apid=0, seq_count=0, time_ref=0, dest_id=0, version=0) -> bytes:
    return tm(17, subservice, timestamp, source_data, apid, seq_count, 0, time_ref, dest_id, version)


# ----------------------------------------------------------------------- request ID
def request_id(version, ptype, shf, apid, seq_flags, seq_count) -> bytes:
    """first four octets of the telecommand's space packet header"""
    return sp_header(version, ptype, shf, apid, seq_flags, seq_count, 0)[:4]


def request_id_of_tc(tc_octets: bytes) -> bytes:
    return bytes(tc_octets[:4])


def request_id_fields(b4: bytes):
    """(version, type, shf, apid, seq_flags, seq_count) of four request-ID octets"""
    w0, w1 = int.from_bytes(b4[0:2], "big"), int.from_bytes(b4[2:4], "big")
    return (w0 >> 13, (w0 >> 12) & 1, (w0 >> 11) & 1, w0 & 0x7FF, w1 >> 14, w1 & 0x3FFF)


# ------------------------------------------------------------------------ service 1
SRV1_STEP_SUBSERVICES = (5, 6)


def srv1_has_failure(subservice: int) -> bool:
    return subservice % 2 == 0


def srv1_has_step(subservice: int) -> bool:
    return subservice in SRV1_STEP_SUBSERVICES


def srv1_source_data(req_id4: bytes, step=None, failure=None) -> bytes:
    """req id (4) | [step id: (value, width)] | [failure: ((code, width), data)]"""
    assert len(req_id4) == 4
    out = bytes(req_id4)
    if step is not None:
        out += uint(step[0], step[1])
    if failure is not None:
        (code, width), data = failure
        out += uint(code, width) + bytes(data)
    return out


def srv1_tm(subservice, req_id4, step=None, failure=None, timestamp=b"", apid=0, seq_count=0, time_ref=0, dest_id=0, version=0) -> bytes:
    return tm(1, subservice, timestamp, srv1_source_data(req_id4, step, failure), apid, seq_count, 0, time_ref, dest_id, version)


# ------------------------------------------- forged short packets (rejection clauses)
def crc_raw(data: bytes, init: int) -> int:
    crc = init
    for b in data:
        crc = ((crc << 8) & 0xFFFF) ^ _TABLE[(crc >> 8) ^ b]
    return crc


def forge_declared_len(total_len: int, ptype: int, apid: int, seq_count: int, fill: bytes, version=0, seq_flags=UNSEGMENTED):
    """An octet string of exactly `total_len` (>= 7) octets that is a CRC-consistent space
    packet declaring exactly that length: primary header with data length total_len-7,
    then octets of `fill` (what a secondary header would look like), then the CRC-16 of
    everything before it - so that the ONLY thing wrong with it is that the declared
    length leaves no room for what a PUS packet must hold.  For total_len 7 the CRC
    overlaps the low length octet; returns None when that cannot be made consistent."""
    assert total_len >= 7
    hdr = sp_header(version, ptype, 1, apid, seq_flags, seq_count, total_len - 7)
    cand = with_crc((hdr + bytes(fill))[: total_len - 2])
    if len(cand) != total_len or cand[:6] != hdr or crc16(cand) != 0:
        return None
    return cand


class SeqWordSolver:
    """For total_len 7 or 8 the trailer overlaps octet 6 (where the PUS version nibble
    sits), so the forged packet only *looks* like PUS-C when the CRC happens to produce
    0x2X there.  The CRC is affine in octets 2-3 (sequence control word), and for a
    16-bit CRC the map word -> CRC contribution is a bijection, so for a wanted trailer
    there is exactly one sequence control word; this finds it by table lookup.  The
    result is always re-verified with the plain crc16()."""

    def __init__(self, octets_after_word: int):
        self.n = octets_after_word
        self.inv = {}
        z = bytes(octets_after_word)
        for w in range(65536):
            self.inv[crc_raw(w.to_bytes(2, "big") + z, 0)] = w
        assert len(self.inv) == 65536

    def solve(self, first2: bytes, after: bytes, wanted_crc: int) -> int:
        assert len(after) == self.n
        base = crc16(bytes(first2) + b"\x00\x00" + bytes(after))
        w = self.inv[base ^ wanted_crc]
        assert crc16(bytes(first2) + w.to_bytes(2, "big") + bytes(after)) == wanted_crc
        return w
