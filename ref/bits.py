"""MSB-first bit-field packer / extractor.  Integers only; the single primitive every
reference encoder is built from (DESIGN.md 3.2)."""


class RefInputError(AssertionError):
    """a reference encoder was handed a value its field cannot hold.  The reference encoders are fed (a) members of the checks'
    alphabets, which are in range by construction (every alphabet is executed on the reference tree), and (b) values the
    library REPORTED (a model that follows a getter, a header rebuilt from what an object says about itself).  On a tree where
    (a) passes, this exception therefore means the library reported a value outside its field: the runner turns it into a
    violation (signature <ID>.observed/value-outside-its-field), never into a harness error."""


def pack_fields(fields) -> bytes:
    """fields: iterable of (value, nbits); total must be a whole number of octets."""
    acc = 0
    n = 0
    for value, nbits in fields:
        if not (isinstance(value, int) and 0 <= value < (1 << nbits)):
            raise RefInputError("reference encoder given out-of-range field %r/%r" % (value, nbits))
        acc = (acc << nbits) | value
        n += nbits
    if n % 8:
        raise AssertionError("field widths do not add up to octets")
    return acc.to_bytes(n // 8, "big")


def unpack_fields(data: bytes, widths):
    """Inverse: returns the list of field values of the first sum(widths)/8 octets."""
    total = sum(widths)
    assert total % 8 == 0 and len(data) >= total // 8
    acc = int.from_bytes(data[: total // 8], "big")
    out = []
    shift = total
    for w in widths:
        shift -= w
        out.append((acc >> shift) & ((1 << w) - 1))
    return out
