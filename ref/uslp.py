"""CCSDS 732.1-B-2 (USLP): transfer frame primary header (4.1.2), truncated primary
header (annex D), transfer frame data field header (4.1.4.2) and the frame layout (4.1.1):

    primary header | insert zone | TFDF header | TFDZ | OCF | FECF

Literal transcription of the field tables on top of ref/bits.py; integers only."""

from __future__ import annotations

from .bits import pack_fields, unpack_fields
from ref.bits import RefInputError  # noqa: E402

TFVN = 0b1100
FIXED_RULES = (0b000, 0b001, 0b010)  # TFDZ construction rules of fixed-length TFDZs: FHP / LVOP present
VARIABLE_RULES = (0b011, 0b100, 0b101, 0b110, 0b111)
OCF_LEN = 4

HDR_WIDTHS = [4, 16, 1, 6, 4, 1, 16, 1, 1, 2, 1, 3]
TRUNC_WIDTHS = [4, 16, 1, 6, 4, 1]


def primary_header(scid, src_dest, vcid, map_id, frame_len, bypass, prot_cmd, ocf_flag, vcf_len=0, vcf_count=0) -> bytes:
    """7 + vcf_len octets.  frame_len is the field value (total octets of the frame minus one)."""
    fixed = pack_fields([
        (TFVN, 4), (scid, 16), (src_dest, 1), (vcid, 6), (map_id, 4), (0, 1),  # end of frame primary header = 0
        (frame_len, 16),
        (bypass, 1), (prot_cmd, 1), (0, 2), (ocf_flag, 1), (vcf_len, 3),
    ])
    if vcf_len == 0:
        return fixed
    return fixed + pack_fields([(vcf_count, 8 * vcf_len)])


def truncated_header(scid, src_dest, vcid, map_id) -> bytes:
    return pack_fields([(TFVN, 4), (scid, 16), (src_dest, 1), (vcid, 6), (map_id, 4), (1, 1)])


def primary_header_fields(raw: bytes):
    """(tfvn, scid, src_dest, vcid, map_id, eofph, frame_len, bypass, prot_cmd, spare, ocf_flag, vcf_len, vcf_count)"""
    f = unpack_fields(raw, HDR_WIDTHS)
    n = f[-1]
    cnt = int.from_bytes(raw[7:7 + n], "big") if n else 0
    assert len(raw) >= 7 + n
    return tuple(f) + (cnt,)


def truncated_header_fields(raw: bytes):
    return tuple(unpack_fields(raw, TRUNC_WIDTHS))


def tfdf_header(rule, upid, pointer=None) -> bytes:
    """construction rule 3 | UPID 5 | optional first header / last valid octet pointer 16"""
    if pointer is None:
        return pack_fields([(rule, 3), (upid, 5)])
    return pack_fields([(rule, 3), (upid, 5), (pointer, 16)])


def frame_body(rule, upid, pointer, tfdz, insert_zone=None, ocf=None, fecf=None) -> bytes:
    """Everything after the primary header."""
    if ocf is not None and len(ocf) != OCF_LEN:
        raise RefInputError("OCF is four octets")
    return (insert_zone or b"") + tfdf_header(rule, upid, pointer) + bytes(tfdz) + (ocf or b"") + (fecf or b"")


def frame(hdr: dict, rule, upid, pointer, tfdz, insert_zone=None, ocf=None, fecf=None) -> bytes:
    """Complete non-truncated frame; the frame length field is computed (total - 1) and the OCF
    flag follows the presence of the OCF.  hdr: scid, src_dest, vcid, map_id, bypass, prot_cmd,
    vcf_len, vcf_count."""
    body = frame_body(rule, upid, pointer, tfdz, insert_zone, ocf, fecf)
    vl = hdr.get("vcf_len", 0)
    total = 7 + vl + len(body)
    return primary_header(hdr["scid"], hdr["src_dest"], hdr["vcid"], hdr["map_id"], total - 1, hdr["bypass"],
                          hdr["prot_cmd"], int(ocf is not None), vl, hdr.get("vcf_count", 0)) + body


def truncated_frame(hdr: dict, rule, upid, tfdz, insert_zone=None, fecf=None) -> bytes:
    """Truncated frame: 4-octet header, one-octet TFDF header (never a pointer), TFDZ."""
    return truncated_header(hdr["scid"], hdr["src_dest"], hdr["vcid"], hdr["map_id"]) + frame_body(rule, upid, None, tfdz, insert_zone, None, fecf)
