"""CCSDS 301.0-B-4 section 3.3, CDS with 16-bit day segment and no sub-millisecond
segment ("CDS short"): P-field 0x40 | day 16 | ms of day 32.  Epoch 1958-01-01T00:00:00Z.

Everything is exact integer / rational arithmetic; no floats, no clock."""

from __future__ import annotations

import datetime
from fractions import Fraction

from .bits import pack_fields, unpack_fields

UTC = datetime.timezone.utc
EPOCH = datetime.datetime(1958, 1, 1, tzinfo=UTC)
UNIX_EPOCH = datetime.datetime(1970, 1, 1, tzinfo=UTC)
MS_PER_DAY = 86_400_000
US_PER_DAY = MS_PER_DAY * 1000
MAX_DAYS = 0xFFFF
#: days between the two epochs, derived from the calendar, not copied from the library
UNIX_EPOCH_CCSDS_DAY = (UNIX_EPOCH - EPOCH).days
assert UNIX_EPOCH_CCSDS_DAY == 12 * 365 + 3 == 4383  # leap years 1960, 1964, 1968

#: P-field: extension 0 | time code id 100 | epoch 0 (1958) | day segment 0 (16 bit) | sub-ms 00
P_FIELD = pack_fields([(0, 1), (0b100, 3), (0, 1), (0, 1), (0, 2)])[0]
assert P_FIELD == 0x40


def cds_short(days: int, ms: int) -> bytes:
    return pack_fields([(P_FIELD, 8), (days, 16), (ms, 32)])


def cds_short_fields(raw: bytes):
    """(p_field, days, ms) of the first seven octets."""
    return tuple(unpack_fields(raw, [8, 16, 32]))


def pfield_time_code_id(p: int) -> int:
    return (p >> 4) & 0b111


def pfield_day_segment_24bit(p: int) -> bool:
    return bool((p >> 2) & 1)


def pfield_must_be_refused(p: int) -> bool:
    """The two things a 7-octet CDS-short decoder can know are wrong (DESIGN.md section 5)."""
    return pfield_time_code_id(p) != 0b100 or pfield_day_segment_24bit(p)


def as_datetime(days: int, ms: int) -> datetime.datetime:
    """Exact: timedelta built from integers normalises in integer microseconds."""
    return EPOCH + datetime.timedelta(days=days, microseconds=ms * 1000)


def unix_ms(days: int, ms: int) -> int:
    """Exact Unix time in integer milliseconds."""
    return (days - UNIX_EPOCH_CCSDS_DAY) * MS_PER_DAY + ms


def unix_seconds(days: int, ms: int) -> Fraction:
    """Exact rational Unix seconds = (d - 4383) * 86400 + ms / 1000."""
    return Fraction(unix_ms(days, ms), 1000)


TOL_NUM, TOL_DEN = 1, 1 << 20  # 2^-20 s


def unix_seconds_close(value: float, days: int, ms: int) -> bool:
    """|value - exact| <= 2^-20 s, decided in integers (float.as_integer_ratio is exact)."""
    if value != value or value in (float("inf"), float("-inf")):
        return False
    n, d = value.as_integer_ratio()
    # |n/d - E/1000| <= 1/2^20   <=>   |1000 n - E d| * 2^20 <= 1000 d
    return abs(1000 * n - unix_ms(days, ms) * d) * TOL_DEN <= 1000 * d * TOL_NUM


def total_us_since_epoch(dt: datetime.datetime) -> int:
    """Exact integer microseconds between the CCSDS epoch and an aware datetime."""
    delta = dt - EPOCH
    return (delta.days * 86400 + delta.seconds) * 1_000_000 + delta.microseconds


def from_datetime(dt: datetime.datetime):
    """(days, ms, leftover_us): exact floor split of the instant."""
    days, rem = divmod(total_us_since_epoch(dt), US_PER_DAY)
    ms, sub = divmod(rem, 1000)
    return days, ms, sub


def timedelta_ms(td: datetime.timedelta) -> int:
    """Whole milliseconds of a (non-negative) timedelta, floor."""
    total_us = (td.days * 86400 + td.seconds) * 1_000_000 + td.microseconds
    return total_us // 1000


def add(days: int, ms: int, td: datetime.timedelta):
    """(days, ms) after adding td by integer arithmetic on total milliseconds, or None when
    the day count no longer fits 16 bits (the implementation must raise OverflowError)."""
    d, m = divmod(days * MS_PER_DAY + ms + timedelta_ms(td), MS_PER_DAY)
    if d > MAX_DAYS:
        return None
    return d, m
