"""CCSDS 727.0-B-5 reference encoders (section 5.1 fixed header, 5.2 file directives, 5.3 file
data, 5.4 TLVs), written from the field tables on top of ref/bits.py and ref/crc16.py only.
Nothing in this module imports the library under test.  Integers and octet strings only.

Layout transcribed (MSB first):

  fixed header   version 3 (=001) | PDU type 1 | direction 1 | transmission mode 1 | CRC flag 1 |
                 large file flag 1 | PDU data field length 16 | segmentation control 1 |
                 length of entity IDs - 1 (3) | segment metadata flag 1 |
                 length of transaction sequence number - 1 (3) |
                 source entity ID | transaction sequence number | destination entity ID
  data field     file directive: directive code 8 | parameters      file data: see file_data()
  trailer        CRC-16 (CCITT-FALSE) over every preceding octet, iff the CRC flag is set; it is part
                 of the PDU data field (counted by the data field length)
"""

from __future__ import annotations

from .bits import pack_fields, unpack_fields
from .crc16 import crc16

FILE_DIRECTIVE, FILE_DATA = 0, 1
TOWARD_RECEIVER, TOWARD_SENDER = 0, 1

EOF, FINISHED, ACK, METADATA, NAK, PROMPT, KEEP_ALIVE = 0x04, 0x05, 0x06, 0x07, 0x08, 0x09, 0x0C
DIRECTIVE_CODE = {
    "EofPdu": EOF, "FinishedPdu": FINISHED, "AckPdu": ACK, "MetadataPdu": METADATA,
    "NakPdu": NAK, "PromptPdu": PROMPT, "KeepAlivePdu": KEEP_ALIVE,
}
KINDS = ["EofPdu", "FinishedPdu", "AckPdu", "MetadataPdu", "NakPdu", "PromptPdu", "KeepAlivePdu", "FileDataPdu"]

# 13 condition codes the standard defines (table 5-5); 9, 12, 13 are reserved
CONDITION_CODES = [0, 1, 2, 3, 4, 5, 6, 7, 8, 10, 11, 14, 15]
NO_ERROR, UNSUPPORTED_CHECKSUM_TYPE = 0, 11
CHECKSUM_TYPES = [0, 1, 2, 3, 15]

TLV_FILESTORE_REQUEST, TLV_FILESTORE_RESPONSE, TLV_MSG_TO_USER = 0x00, 0x01, 0x02
TLV_FAULT_HANDLER, TLV_FLOW_LABEL, TLV_ENTITY_ID = 0x04, 0x05, 0x06
# filestore actions that name two files: rename (2), append (3), replace (4)
SECOND_NAME_ACTIONS = (2, 3, 4)


# ------------------------------------------------------------------------------ header
def header(ptype, direction, mode, crc, large, data_len, segctrl, idw, segmeta, seqw, src, seq, dst) -> bytes:
    return pack_fields([
        (1, 3), (ptype, 1), (direction, 1), (mode, 1), (crc, 1), (large, 1),
        (data_len, 16),
        (segctrl, 1), (idw - 1, 3), (segmeta, 1), (seqw - 1, 3),
        (src, 8 * idw), (seq, 8 * seqw), (dst, 8 * idw),
    ])


def header_len_of(idw, seqw) -> int:
    return 4 + 2 * idw + seqw


def pdu(ptype, direction, mode, crc, large, segctrl, idw, segmeta, seqw, src, seq, dst, body: bytes) -> bytes:
    """header || body || [CRC]; the data field length counts body and CRC."""
    data_len = len(body) + (2 if crc else 0)
    raw = header(ptype, direction, mode, crc, large, data_len, segctrl, idw, segmeta, seqw, src, seq, dst) + bytes(body)
    if crc:
        raw += crc16(raw).to_bytes(2, "big")
    return raw


# ------------------------------------------------------------------- decode helpers (raw)
def header_fields(raw: bytes) -> dict:
    v, t, d, m, c, l, dl, sc, iw, sm, sw = unpack_fields(raw, [3, 1, 1, 1, 1, 1, 16, 1, 3, 1, 3])
    return {"version": v, "ptype": t, "dir": d, "mode": m, "crc": c, "large": l, "dlen": dl,
            "segctrl": sc, "idw": iw + 1, "segmeta": sm, "seqw": sw + 1}


def header_len(raw: bytes) -> int:
    f = header_fields(raw)
    return 4 + 2 * f["idw"] + f["seqw"]


def pdu_type(raw: bytes) -> int:
    return unpack_fields(raw[:1], [3, 1, 4])[1]


def directive_code(raw: bytes):
    """directive code octet of a file directive PDU, None for file data"""
    if pdu_type(raw) == FILE_DATA:
        return None
    return raw[header_len(raw)]


def data_field_len(raw: bytes) -> int:
    return header_fields(raw)["dlen"]


def id_fields(raw: bytes):
    f = header_fields(raw)
    iw, sw = f["idw"], f["seqw"]
    return (int.from_bytes(raw[4:4 + iw], "big"), int.from_bytes(raw[4 + iw:4 + iw + sw], "big"),
            int.from_bytes(raw[4 + iw + sw:4 + 2 * iw + sw], "big"))


# ------------------------------------------------------------------------- LV and TLVs
def lv(b: bytes) -> bytes:
    assert len(b) <= 255
    return bytes([len(b)]) + bytes(b)


def tlv(t: int, b: bytes) -> bytes:
    assert len(b) <= 255 and 0 <= t <= 255
    return bytes([t, len(b)]) + bytes(b)


def entity_id_tlv(value: bytes) -> bytes:
    return tlv(TLV_ENTITY_ID, value)


def flow_label_tlv(value: bytes) -> bytes:
    return tlv(TLV_FLOW_LABEL, value)


def msg_to_user_tlv(value: bytes) -> bytes:
    return tlv(TLV_MSG_TO_USER, value)


def fault_handler_tlv(condition_code: int, handler_code: int) -> bytes:
    return tlv(TLV_FAULT_HANDLER, pack_fields([(condition_code, 4), (handler_code, 4)]))


def fs_request_tlv(action: int, first: bytes, second=None) -> bytes:
    """action code 4 | spare 4 | first file name LV | [second file name LV for two-name actions]"""
    v = pack_fields([(action, 4), (0, 4)]) + lv(first)
    if action in SECOND_NAME_ACTIONS:
        v += lv(second or b"")
    return tlv(TLV_FILESTORE_REQUEST, v)


def fs_response_tlv(action: int, status: int, first: bytes, second=None, msg: bytes = b"") -> bytes:
    """action code 4 | status code 4 | first file name LV | [second file name LV] | filestore message LV"""
    v = pack_fields([(action, 4), (status, 4)]) + lv(first)
    if action in SECOND_NAME_ACTIONS:
        v += lv(second or b"")
    v += lv(msg)
    return tlv(TLV_FILESTORE_RESPONSE, v)


def fss(value: int, large: int) -> bytes:
    """file-size-sensitive field: 32 bit, or 64 bit when the large file flag is set"""
    return pack_fields([(value, 64 if large else 32)])


# ----------------------------------------------------------- directive parameter fields
def eof_body(cc, checksum: bytes, size, large, fault=None) -> bytes:
    assert len(checksum) == 4
    b = bytes([EOF]) + pack_fields([(cc, 4), (0, 4)]) + bytes(checksum) + fss(size, large)
    if fault is not None:
        b += entity_id_tlv(fault)
    return b


def finished_body(cc, delivery, file_status, responses=(), fault=None) -> bytes:
    """condition 4 | spare 1 | delivery code 1 | file status 2 | filestore responses | [fault location]"""
    b = bytes([FINISHED]) + pack_fields([(cc, 4), (0, 1), (delivery, 1), (file_status, 2)])
    for r in responses:
        b += bytes(r)
    if fault is not None:
        b += entity_id_tlv(fault)
    return b


def ack_subtype(acked: int) -> int:
    return 1 if acked == FINISHED else 0


def ack_direction(acked: int) -> int:
    """ACK of EOF travels toward the sender, ACK of Finished toward the receiver"""
    return TOWARD_RECEIVER if acked == FINISHED else TOWARD_SENDER


def ack_body(acked, cc, transaction_status) -> bytes:
    return bytes([ACK]) + pack_fields([(acked, 4), (ack_subtype(acked), 4), (cc, 4), (0, 2), (transaction_status, 2)])


def metadata_body(closure, checksum_type, size, large, src_name: bytes, dst_name: bytes, options=()) -> bytes:
    """reserved 1 | closure requested 1 | reserved 2 | checksum type 4 | file size | names | options"""
    b = bytes([METADATA]) + pack_fields([(0, 1), (closure, 1), (0, 2), (checksum_type, 4)]) + fss(size, large)
    b += lv(src_name) + lv(dst_name)
    for o in options:
        b += bytes(o)
    return b


def nak_body(start, end, segments, large) -> bytes:
    b = bytes([NAK]) + fss(start, large) + fss(end, large)
    for a, z in segments:
        b += fss(a, large) + fss(z, large)
    return b


def prompt_body(response_required) -> bytes:
    return bytes([PROMPT]) + pack_fields([(response_required, 1), (0, 7)])


def keep_alive_body(progress, large) -> bytes:
    return bytes([KEEP_ALIVE]) + fss(progress, large)


def file_data_body(offset, data: bytes, large, segment_metadata=None) -> bytes:
    """[record continuation state 2 | metadata length 6 | metadata] | offset | file data"""
    b = b""
    if segment_metadata is not None:
        state, md = segment_metadata
        b += pack_fields([(state, 2), (len(md), 6)]) + bytes(md)
    return b + fss(offset, large) + bytes(data)


DIRECTION = {
    "EofPdu": TOWARD_RECEIVER, "MetadataPdu": TOWARD_RECEIVER, "PromptPdu": TOWARD_RECEIVER,
    "FileDataPdu": TOWARD_RECEIVER, "FinishedPdu": TOWARD_SENDER, "NakPdu": TOWARD_SENDER,
    "KeepAlivePdu": TOWARD_SENDER,
}


# ------------------------------------------------------------- recipes (plain data) -> octets
# A recipe is {"cfg": {...}, "params": {...}} (units/cfdp_pdu.py documents the keys).  The
# functions below turn one into octets without touching the library.
ID_SCHEMES = {
    # every octet of the three fields is different, src != dst != seq for every width
    "std": (0x11, 0x71, 0xA1),
    # octets that look like directive codes 0x04..0x0C and TLV types (C12: the factory must not
    # find the directive octet at a wrong offset)
    "dir": None,
}
_DIR_SRC = [0x04, 0x05, 0x06, 0x07, 0x08, 0x09, 0x0C, 0x0A]
_DIR_SEQ = [0x0C, 0x09, 0x08, 0x07, 0x06, 0x05, 0x04, 0x0B]
_DIR_DST = [0x07, 0x08, 0x09, 0x0C, 0x04, 0x05, 0x06, 0x0D]


def cfg_ids(cfg) -> tuple:
    """(src, seq, dst) integer values of a configuration (explicit values win over the scheme)"""
    iw, sw = cfg["idw"], cfg["seqw"]
    if cfg.get("ids", "std") == "dir":
        src, seq, dst = bytes(_DIR_SRC[:iw]), bytes(_DIR_SEQ[:sw]), bytes(_DIR_DST[:iw])
    else:
        a, b, c = ID_SCHEMES["std"]
        src, seq, dst = bytes(range(a, a + iw)), bytes(range(b, b + sw)), bytes(range(c, c + iw))
    out = [int.from_bytes(src, "big"), int.from_bytes(seq, "big"), int.from_bytes(dst, "big")]
    for i, k in enumerate(("src", "seq", "dst")):
        if cfg.get(k) is not None:
            out[i] = int(cfg[k])
    return tuple(out)


def name_octets(name) -> bytes:
    return b"" if name is None else name.encode("utf-8")


def response_octets(r) -> bytes:
    return fs_response_tlv(r["action"], r["status"], name_octets(r["first"]),
                           name_octets(r.get("second")), bytes(r.get("msg") or b""))


def option_octets(o) -> bytes:
    t = o["t"]
    if t == "flow":
        return flow_label_tlv(bytes(o["v"]))
    if t == "msg":
        return msg_to_user_tlv(bytes(o["v"]))
    if t == "fsreq":
        return fs_request_tlv(o["action"], name_octets(o["first"]), name_octets(o.get("second")))
    if t == "fault":
        return fault_handler_tlv(o["cc"], o["handler"])
    if t == "raw":
        return tlv(o["type"], bytes(o["v"]))
    raise AssertionError("unknown option recipe %r" % (o,))


def pdu_body(kind, large, p) -> bytes:
    if kind == "EofPdu":
        return eof_body(p["cc"], bytes(p["checksum"]), p["size"], large, None if p.get("fault") is None else bytes(p["fault"]))
    if kind == "FinishedPdu":
        return finished_body(p["cc"], p["dc"], p["fs"], [response_octets(r) for r in p.get("resps") or []],
                             None if p.get("fault") is None else bytes(p["fault"]))
    if kind == "AckPdu":
        return ack_body(p["acked"], p["cc"], p["ts"])
    if kind == "MetadataPdu":
        return metadata_body(p["closure"], p["cs"], p["size"], large, name_octets(p.get("src")), name_octets(p.get("dst")),
                             [option_octets(o) for o in p.get("opts") or []])
    if kind == "NakPdu":
        return nak_body(p["start"], p["end"], p.get("segs") or [], large)
    if kind == "PromptPdu":
        return prompt_body(p["rr"])
    if kind == "KeepAlivePdu":
        return keep_alive_body(p["progress"], large)
    if kind == "FileDataPdu":
        md = p.get("md")
        return file_data_body(p["offset"], data_octets(p["data"]), large, None if md is None else (md[0], bytes(md[1])))
    raise AssertionError(kind)


def data_octets(spec) -> bytes:
    """file data of a recipe: octets, or ["shaped", length, k] (k-th pattern of shaped_patterns)"""
    if isinstance(spec, (bytes, bytearray)):
        return bytes(spec)
    tag, length, k = spec
    assert tag == "shaped"
    return shaped_patterns(length)[k]


def shaped_patterns(length: int):
    return [
        bytes(length),
        b"\xff" * length,
        bytes((i & 0xFF) for i in range(length)),
        bytes(((255 - i) & 0xFF) for i in range(length)),
        bytes((0x55 if i % 2 == 0 else 0xAA) for i in range(length)),
    ]


def pdu_direction(kind, p) -> int:
    return ack_direction(p["acked"]) if kind == "AckPdu" else DIRECTION[kind]


def encode_pdu(kind, cfg, p) -> bytes:
    src, seq, dst = cfg_ids(cfg)
    large = cfg["large"]
    ptype = FILE_DATA if kind == "FileDataPdu" else FILE_DIRECTIVE
    segmeta = 1 if (kind == "FileDataPdu" and p.get("md") is not None) else 0
    return pdu(ptype, pdu_direction(kind, p), cfg["mode"], cfg["crc"], large, cfg.get("segctrl", 0), cfg["idw"], segmeta,
               cfg["seqw"], src, seq, dst, pdu_body(kind, large, p))


def encode_header(cfg, p) -> bytes:
    """PduHeader recipe: cfg carries ptype/dir/segctrl/segmeta as well, params the data field length"""
    src, seq, dst = cfg_ids(cfg)
    return header(cfg.get("ptype", 0), cfg.get("dir", 0), cfg["mode"], cfg["crc"], cfg["large"], p["dlen"], cfg.get("segctrl", 0),
                  cfg["idw"], cfg.get("segmeta", 0), cfg["seqw"], src, seq, dst)
