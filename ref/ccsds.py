"""CCSDS 133.0-B-2 section 4.1.3: space packet primary header."""
from .bits import pack_fields, unpack_fields


def sp_header(version, ptype, shf, apid, seq_flags, seq_count, data_len) -> bytes:
    return pack_fields([(version, 3), (ptype, 1), (shf, 1), (apid, 11), (seq_flags, 2), (seq_count, 14), (data_len, 16)])


def sp_header_fields(b: bytes):
    """(version, type, shf, apid, seq_flags, seq_count, data_len) of the first 6 octets."""
    return tuple(unpack_fields(b, [3, 1, 1, 11, 2, 14, 16]))


def words_to_fields(w0, w1, w2):
    return (w0 >> 13, (w0 >> 12) & 1, (w0 >> 11) & 1, w0 & 0x7FF, w1 >> 14, w1 & 0x3FFF, w2)
