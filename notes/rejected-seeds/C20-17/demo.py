"""C20: values too large for the width are refused with ValueError; the integer/octet conversion
helpers agree with big-endian encoding over their whole accepted range (and refuse everything
outside of it the same way)."""
import os
import sys

sys.path.insert(0, os.getcwd())

from spacepackets.util import IntByteConversion  # noqa: E402

failures = []

for width in (1, 2, 4, 8):
    top = 256**width - 1
    # inside the accepted range: big-endian encoding in exactly that width
    for val in (0, 1, top // 2, top // 2 + 1, top - 1, top):
        got = IntByteConversion.to_unsigned(width, val)
        if got != val.to_bytes(width, "big"):
            failures.append(f"to_unsigned({width}, {val:#x}) = {got.hex()}")
    # outside of it: refused with ValueError, starting with the very first value that does not fit
    for val in (top + 1, top + 2, 2 * (top + 1), 256 ** (width + 1)):
        try:
            got = IntByteConversion.to_unsigned(width, val)
            failures.append(
                f"to_unsigned({width}, {val:#x}) returned {got.hex()} instead of raising ValueError"
            )
        except ValueError:
            pass
        except Exception as e:  # noqa: BLE001
            failures.append(
                f"to_unsigned({width}, {val:#x}) [first value too large is {top + 1:#x}] raised "
                f"{type(e).__module__}.{type(e).__name__}({e}) instead of ValueError"
            )
    # the signed helper at the corresponding boundary
    for val in (top // 2 + 1, top + 1):
        try:
            IntByteConversion.to_signed(width, val)
            failures.append(f"to_signed({width}, {val:#x}) not refused")
        except ValueError:
            pass
        except Exception as e:  # noqa: BLE001
            failures.append(f"to_signed({width}, {val:#x}) raised {type(e).__name__}")

if failures:
    print("FAIL")
    for line in failures:
        print("  " + line)
    sys.exit(1)
print("PASS")
sys.exit(0)
