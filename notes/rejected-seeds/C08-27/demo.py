"""C08: filestore request / response TLVs pack to the field layout of 727.0-B-5 5.4.1 / 5.4.2 for all
file-name strings, decode back to the same names and report their packed length correctly.  The
layout on the wire must not depend on the locale the ground software happens to be started in, so
the check is run twice: in the current environment and in a child interpreter that is started
with a non-UTF-8 locale (LC_ALL=C, UTF-8 mode and locale coercion switched off)."""
import os
import subprocess
import sys

sys.path.insert(0, os.getcwd())


def check() -> list:
    from spacepackets.cfdp import (
        CfdpLv,
        FileStoreRequestTlv,
        FileStoreResponseTlv,
        FilestoreActionCode,
        FilestoreResponseStatusCode,
    )

    failures = []
    first, second = "daten/größe_é.txt", "файл.bin"
    f_raw, s_raw = first.encode("utf-8"), second.encode("utf-8")
    value = bytes([0x20, len(f_raw)]) + f_raw + bytes([len(s_raw)]) + s_raw
    expected_req = bytes([0x00, len(value)]) + value
    value = bytes([0x2F, len(f_raw)]) + f_raw + bytes([len(s_raw)]) + s_raw + b"\x02ok"
    expected_rsp = bytes([0x01, len(value)]) + value
    cases = {
        "FileStoreRequestTlv": (
            lambda: FileStoreRequestTlv(FilestoreActionCode.RENAME_FILE_SNP, first, second),
            FileStoreRequestTlv,
            expected_req,
        ),
        "FileStoreResponseTlv": (
            lambda: FileStoreResponseTlv(
                FilestoreActionCode.RENAME_FILE_SNP,
                FilestoreResponseStatusCode.RENAME_NOT_PERFORMED,
                first,
                second,
                CfdpLv(b"ok"),
            ),
            FileStoreResponseTlv,
            expected_rsp,
        ),
    }
    for name, (ctor, cls, expected) in cases.items():
        try:
            tlv = ctor()
            plen, raw = tlv.packet_len, bytes(tlv.pack())
            if raw != expected or plen != len(expected):
                failures.append(f"{name}: packed {raw.hex()} (packet_len {plen}), expected {expected.hex()}")
        except Exception as e:  # noqa: BLE001
            failures.append(f"{name}: packing names {first!a}, {second!a} failed: {type(e).__name__}: {e}")
        try:
            back = cls.unpack(expected)
            got = (back.first_file_name, back.second_file_name, back.packet_len)
            if got != (first, second, len(expected)):
                failures.append(f"{name}: decoded {got!a}, expected {(first, second, len(expected))!a}")
        except Exception as e:  # noqa: BLE001
            failures.append(f"{name}: decoding {expected.hex()} failed: {type(e).__name__}: {e}")
    return failures


if __name__ == "__main__":
    if len(sys.argv) > 1 and sys.argv[1] == "--child":
        fails = check()
        for f in fails:
            print("  [fs encoding %s] %s" % (sys.getfilesystemencoding(), f))
        sys.exit(1 if fails else 0)
    fails = ["  [fs encoding %s] %s" % (sys.getfilesystemencoding(), f) for f in check()]
    env = {k: v for k, v in os.environ.items() if not k.startswith(("LC_", "LANG", "PYTHONUTF8"))}
    env.update({"LC_ALL": "C", "PYTHONUTF8": "0", "PYTHONCOERCECLOCALE": "0", "PYTHONIOENCODING": "utf-8"})
    child = subprocess.run(
        [sys.executable, "-X", "utf8=0", os.path.abspath(__file__), "--child"],
        env=env, cwd=os.getcwd(), capture_output=True, text=True, encoding="utf-8",
    )
    if child.returncode != 0:
        fails.append(child.stdout.rstrip() or f"  child failed: {child.stderr.strip()[-300:]}")
    if fails:
        print("FAIL")
        print("\n".join(fails))
        sys.exit(1)
    print("PASS")
