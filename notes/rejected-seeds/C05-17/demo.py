"""C05 demo 2: a header whose version field is not 001 must be refused with the documented
UnsupportedCfdpVersion error (carrying the version found) - whatever the remaining octets of
the fixed part look like. A receiver uses exactly this error to hand PDUs of another CFDP
version (whose fourth octet has a different meaning) to another handler."""
import os
import sys

sys.path.insert(0, os.getcwd())

from spacepackets.cfdp.defs import UnsupportedCfdpVersion
from spacepackets.cfdp.pdu.header import PduHeader

failures = []
checked = 0


def probe(buf: bytes, version: int, what: str):
    global checked
    checked += 1
    try:
        PduHeader.unpack(buf)
    except UnsupportedCfdpVersion as e:
        if e.version != version:
            failures.append(f"{what}: reported version {e.version}, expected {version}")
        return
    except Exception as e:  # noqa
        failures.append(
            f"{what}: refused with {type(e).__name__} ({e}) instead of UnsupportedCfdpVersion"
        )
        return
    failures.append(f"{what}: version {version:03b} accepted")


for version in (0b000, 0b010, 0b011, 0b100, 0b101, 0b110, 0b111):
    for flags in range(32):
        first = (version << 5) | flags
        for fourth in range(256):
            fixed = bytes([first, 0x00, 0x10, fourth])
            # (a) the 4-octet fixed part followed by plenty of octets (28 = largest header)
            probe(
                fixed + bytes(range(1, 29)),
                version,
                f"long buffer, octets {fixed.hex(',')}",
            )
            # (b) only as many octets as a minimal (7 octet) header has
            probe(fixed + bytes(3), version, f"7-octet buffer, octets {fixed.hex(',')}")
            # (c) the fixed part alone
            probe(fixed, version, f"4-octet buffer, octets {fixed.hex(',')}")

# sanity: version 001 is accepted
hdr = PduHeader.unpack(bytes([0x20, 0, 0, 0x00, 1, 2, 3]))
if hdr.pack() != bytearray([0x20, 0, 0, 0x00, 1, 2, 3]):
    failures.append("version 001 header did not round-trip")

if failures:
    print(f"FAIL ({len(failures)} of {checked} probes)")
    for f in failures[:12]:
        print("  " + f)
    sys.exit(1)
print(f"PASS ({checked} probes)")
sys.exit(0)
