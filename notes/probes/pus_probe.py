import sys, warnings, itertools, collections, struct; warnings.simplefilter('ignore'); sys.path.insert(0, sys.argv[1])
from spacepackets.ccsds.spacepacket import *
from spacepackets.ecss.tc import *
from spacepackets.ecss.tm import *
from spacepackets.ecss import check_pus_crc
from spacepackets.ecss.pus_1_verification import *
from spacepackets.ecss.pus_17_test import Service17Tm
from spacepackets.ecss.fields import *
from spacepackets.ecss.req_id import RequestId
V=collections.OrderedDict()
def viol(k,w): V.setdefault(k,w)
def crc16(data):
    crc=0xFFFF
    for b in data:
        crc^=b<<8
        for _ in range(8):
            crc=((crc<<1)^0x1021)&0xFFFF if crc&0x8000 else (crc<<1)&0xFFFF
    return crc
def sph(ver,typ,shf,apid,fl,cnt,dl): return ((ver<<13|typ<<12|shf<<11|apid)<<32|(fl<<14|cnt)<<16|dl).to_bytes(6,'big')
E8=[0,1,0x7f,0x80,0xfe,0xff,0x55,0xaa]; E11=[0,1,0x3ff,0x400,0x7fe,0x7ff,0x555,0x2aa]; E14=[0,1,0x1fff,0x2000,0x3ffe,0x3fff,0x1555,0x2aaa]; E16=[0,1,0x7fff,0x8000,0xfffe,0xffff,0x5555,0xaaaa]
n=0
datas=[b'',b'\x00',b'\xff\xff',bytes(range(17)),bytes(255),bytes(256)]
for svc,sub,apid,cnt,sid,ack in itertools.product(E8[::2],E8[1::2],E11,E14[::2],E16[1::2],(0,0xf,5,0xa)):
    for d in datas[:3]:
        n+=1
        tc=PusTc(svc,sub,apid=apid,app_data=d,seq_count=cnt,source_id=sid,ack_flags=ack)
        body=sph(0,1,1,apid,3,cnt,5+len(d)+1)+bytes([0x20|ack,svc,sub,sid>>8,sid&0xff])+d
        ref=body+crc16(body).to_bytes(2,'big')
        raw=bytes(tc.pack())
        if raw!=ref: viol(('tc-pack',),(raw.hex(),ref.hex())); continue
        u=PusTc.unpack(ref+b'\x99')
        if not(u==tc and (u.service,u.subservice,u.apid,u.seq_count,u.source_id,u.pus_tc_sec_header.ack_flags,bytes(u.app_data))==(svc,sub,apid,cnt,sid,ack,d) and bytes(u.pack())==ref and u.packet_len==len(ref)==tc.packet_len and bytes(tc.to_space_packet().pack())==ref and check_pus_crc(ref)): viol(('tc-roundtrip',),ref.hex())
print('tc',n); n=0
for svc,sub,apid,cnt,mc,dest,tref,ver in itertools.product(E8[::3],E8[1::3],E11[::2],E14[1::3],E16[::3],E16[1::3],(0,0xf,5),(0,7,2)):
    for ts in (b'',b'\x40',bytes(range(7)),bytes(range(16))):
        for d in datas[:2]:
            n+=1
            tm=PusTm(svc,sub,ts,d,apid,cnt,mc,tref,dest,ver)
            body=sph(ver,0,1,apid,3,cnt,7+len(ts)+len(d)+1)+bytes([0x20|tref,svc,sub,mc>>8,mc&0xff,dest>>8,dest&0xff])+ts+d
            ref=body+crc16(body).to_bytes(2,'big'); raw=bytes(tm.pack())
            if raw!=ref: viol(('tm-pack',),(raw.hex(),ref.hex())); continue
            u=PusTm.unpack(ref+b'\x99\x98',len(ts))
            h=u.pus_tm_sec_header
            if not(u==tm and (u.service,u.subservice,u.apid,u.seq_count,h.message_counter,h.dest_id,h.spacecraft_time_ref,u.ccsds_version,bytes(u.timestamp),bytes(u.tm_data))==(svc,sub,apid,cnt,mc,dest,tref,ver,ts,d) and bytes(u.pack())==ref and u.packet_len==len(ref) and bytes(tm.to_space_packet().pack())==ref and check_pus_crc(ref)): viol(('tm-roundtrip',len(ts)),ref.hex())
print('tm',n); n=0
# Service 1
for apid,cnt,ver in ((0,0,0),(0x7ff,0x3fff,0),(0x555,0x2aaa,0)):
    tc=PusTc(17,1,apid=apid,seq_count=cnt)
    rid=RequestId.from_pus_tc(tc); rraw=sph(0,1,1,apid,3,cnt,0)[:4]
    if bytes(rid.pack())!=rraw or rid.as_u32()!=int.from_bytes(rraw,'big') or RequestId.unpack(rraw+b'\x01')!=rid or hash(RequestId.unpack(rraw))!=hash(rid): viol(('reqid',),rraw.hex())
    for sub in range(1,9):
        for sw,sv in ((1,0xfe),(2,0x0102),(4,0x01020304),(8,0x0102030405060708)):
            for ew,ev in ((1,0xfd),(2,0xa1a2),(4,0xa1a2a3a4),(8,0xa1a2a3a4a5a6a7a8)):
                for fd in (b'',b'\x77',b'xyz'*30):
                    for ts in (b'',b'\x40'+bytes(6)):
                        step=PacketFieldEnum.with_byte_size(sw,sv) if sub in (5,6) else None
                        fn=FailureNotice(PacketFieldEnum.with_byte_size(ew,ev),fd) if sub%2==0 else None
                        n+=1
                        tm=Service1Tm(apid=3,subservice=Subservice(sub),timestamp=ts,verif_params=VerificationParams(rid,step,fn),seq_count=5)
                        src=rraw+(sv.to_bytes(sw,'big') if step else b'')+((ev.to_bytes(ew,'big')+fd) if fn else b'')
                        if bytes(tm.source_data)!=src: viol(('s1-srcdata',sub),(bytes(tm.source_data).hex(),src.hex())); continue
                        raw=bytes(tm.pack())
                        u=Service1Tm.unpack(raw+b'\x00',UnpackParams(len(ts),sw,ew))
                        ok=(u.tc_req_id==rid and (u.step_id.val if step else u.step_id)==(sv if step else None) and ((u.error_code.val,bytes(u.failure_notice.data)) if fn else (u.error_code,u.failure_notice))==((ev,fd) if fn else (None,None)) and bytes(u.pack())==raw and u==tm and tm==u)
                        if not ok: viol(('s1-roundtrip',sub),(raw.hex(),))
    for sub in range(1,9):
        for step in (None,PacketFieldU8(1)):
            for fn in (None,FailureNotice(PacketFieldU8(1),b'')):
                valid=(fn is not None)==(sub%2==0) and (step is not None)==(sub in (5,6))
                try:
                    Service1Tm(apid=1,subservice=Subservice(sub),timestamp=b'',verif_params=VerificationParams(rid,step,fn))
                    if not valid: viol(('s1-invalid-accepted',sub),(step,fn))
                except InvalidVerifParams:
                    if valid: viol(('s1-valid-refused',sub),(step,fn))
print('s1',n)
for k,v in V.items(): print('VIOL',k,str(v)[:300])
