import sys, warnings, itertools, collections; warnings.simplefilter('ignore'); sys.path.insert(0, sys.argv[1])
exec(open('/tmp/cfdp_probe.py').read().split("kinds=[")[0].replace("sys.path.insert(0, sys.argv[1])",""))
from spacepackets.cfdp.exceptions import *
from spacepackets.cfdp.defs import UnsupportedCfdpVersion
from spacepackets.ecss.tc import PusTc, InvalidTcCrc16
from spacepackets.ecss.tm import PusTm, InvalidTmCrc16
from spacepackets.ecss import check_pus_crc
from multiprocessing import Pool
OK=(ValueError, InvalidCrc, UnsupportedCfdpVersion, TlvTypeMissmatch, InvalidTcCrc16, InvalidTmCrc16)
def patterns(maxL):
    out=[(1,1)]
    for L in range(2,maxL+1):
        for inner in range(1<<(L-2)):
            out.append((L,(1<<(L-1))|(inner<<1)|1))
    return out
def corrupt(raw, off, L, pat):
    x=int.from_bytes(raw,'big'); nb=len(raw)*8
    shift=nb-off-L
    if shift<0: return None
    return (x^(pat<<shift)).to_bytes(len(raw),'big')
def flipped_bits(off,L,pat): return [off+i for i in range(L) if (pat>>(L-1-i))&1]
def job(args):
    name,raw,excl,deckey,maxL=args
    if deckey=='tc': decs=[('tc',PusTc.unpack)]
    elif deckey=='tm': decs=[('tm',lambda b: PusTm.unpack(b,7))]
    else:
        cls={'eof':EofPdu,'fin':FinishedPdu,'ack':AckPdu,'meta':MetadataPdu,'nak':NakPdu,'nak0':NakPdu,'prompt':PromptPdu,'ka':KeepAlivePdu,'fd':FileDataPdu,'fd0':FileDataPdu}[deckey]
        decs=[('cls',cls.unpack),('fac',PduFactory.from_raw)]
    acc=[];n=0;exc=collections.Counter()
    for off in range(len(raw)*8):
        for L,pat in patterns(maxL):
            if any(b in excl for b in flipped_bits(off,L,pat)): continue
            c=corrupt(raw,off,L,pat)
            if c is None: continue
            for dn,dec in decs:
                n+=1
                try:
                    r=dec(c)
                    if r is not None: acc.append((name,dn,off,L,bin(pat)))
                except OK as e: exc[type(e).__name__]+=1
                except Exception as e: acc.append((name,dn,off,L,bin(pat),'UNDOC',type(e).__name__))
            if name.startswith('t') and check_pus_crc(c): acc.append((name,'check_pus_crc',off,L))
    return name,n,acc[:5],len(acc),dict(exc)
if __name__=='__main__':
    maxL=int(sys.argv[2])
    jobs=[]
    for k in ['eof','fin','ack','meta','nak','prompt','ka','fd','fd0','nak0']:
        for large in (0,1):
            p=mk(k,1,large); raw=bytes(p.pack())
            excl=set(range(8,24))|{25,26,27,29,30,31}|{6}   # len field, width fields of octet 3, crc flag bit (octet0 bit1 => bit index 6)
            jobs.append((f'{k}/{large}',raw,excl,k,maxL))
    tc=bytes(PusTc(17,1,apid=0x123,seq_count=77,app_data=b'\x01\x02\x03',source_id=0x4455).pack())
    tm=bytes(PusTm(17,2,b'\x40\x01\x02\x03\x04\x05\x06',b'\xaa\xbb',apid=0x123,seq_count=9).pack())
    jobs.append(('tc',tc,set(range(32,48)),'tc',maxL)); jobs.append(('tm',tm,set(range(32,48)),'tm',maxL))
    tot=0
    with Pool(16) as pool:
        for name,n,acc,nacc,exc in pool.imap_unordered(job,jobs):
            tot+=n
            print(name,n,'ACCEPTED' if nacc else 'ok',nacc,acc[:3],exc)
    print('total',tot)
