import sys, warnings; warnings.simplefilter('ignore'); sys.path.insert(0, sys.argv[1])
from spacepackets.cfdp import *
from spacepackets.cfdp.pdu import *
from spacepackets.cfdp.pdu.file_data import *
from spacepackets.cfdp.pdu.prompt import ResponseRequired
from spacepackets.cfdp.pdu.ack import TransactionStatus
from spacepackets.cfdp.tlv import *
from spacepackets.cfdp.conf import PduConfig
from spacepackets.util import *
def conf(crc=False, large=False, w=1):
    return PduConfig(source_entity_id=ByteFieldGenerator.from_int(w,1), dest_entity_id=ByteFieldGenerator.from_int(w,2), transaction_seq_num=ByteFieldGenerator.from_int(w,3), trans_mode=TransmissionMode.ACKNOWLEDGED, crc_flag=CrcFlag.WITH_CRC if crc else CrcFlag.NO_CRC, file_flag=LargeFileFlag.LARGE if large else LargeFileFlag.NORMAL)
fsr = FileStoreResponseTlv(FilestoreActionCode.RENAME_FILE_SNP, FilestoreResponseStatusCode.RENAME_SUCCESS, 'a', 'b')
def mk(kind, crc, large):
    c = conf(crc, large, 2)
    return {
     'eof': lambda: EofPdu(c, b'\x01\x02\x03\x04', 77, EntityIdTlv(b'\x05\x06'), ConditionCode.FILE_SIZE_ERROR),
     'eof0': lambda: EofPdu(c, b'\x01\x02\x03\x04', 77),
     'fin': lambda: FinishedPdu(c, FinishedParams(ConditionCode.FILE_SIZE_ERROR, DeliveryCode.DATA_INCOMPLETE, FileStatus.FILE_RETAINED, [fsr], EntityIdTlv(b'\x05\x06'))),
     'fin0': lambda: FinishedPdu(c, FinishedParams.success_params()),
     'ack': lambda: AckPdu(c, DirectiveType.EOF_PDU, ConditionCode.FILE_SIZE_ERROR, TransactionStatus.ACTIVE),
     'meta': lambda: MetadataPdu(c, MetadataParams(True, ChecksumType.CRC_32, 5, 'a','bc'), [FlowLabelTlv(b'xy')]),
     'meta0': lambda: MetadataPdu(c, MetadataParams(True, ChecksumType.CRC_32, 5, 'a','bc')),
     'nak': lambda: NakPdu(c, 1, 10, [(1,2),(3,4)]),
     'nak0': lambda: NakPdu(c, 1, 10),
     'prompt': lambda: PromptPdu(c, ResponseRequired.KEEP_ALIVE),
     'ka': lambda: KeepAlivePdu(c, 0x01020304),
     'fd': lambda: FileDataPdu(c, FileDataParams(b'hello', 3, SegmentMetadata(RecordContinuationState.START_AND_END, b'mm'))),
     'fd0': lambda: FileDataPdu(c, FileDataParams(b'', 3)),
    }[kind]()
kinds=['eof','eof0','fin','fin0','ack','meta','meta0','nak','nak0','prompt','ka','fd','fd0']
for k in kinds:
    res=[]
    for crc in (0,1):
        for large in (0,1):
            p=mk(k,crc,large); raw=bytes(p.pack())
            try:
                u=type(p).unpack(raw); ok=(u==p and p==u and bytes(u.pack())==raw and u.packet_len==len(raw)==p.packet_len)
                r='ok' if ok else 'NEQ'
            except Exception as e: r=type(e).__name__
            sfx=[]
            for s in (b'\x00', b'\x06\x01\x07', bytes(8), bytes(16), raw):
                try:
                    u2=type(p).unpack(raw+s); sfx.append('=' if (u2==p and bytes(u2.pack())==raw) else 'X')
                except Exception as e: sfx.append(type(e).__name__[0:3])
            f=PduFactory.from_raw(raw) if r=='ok' else None
            res.append(f"{r}[{','.join(sfx)}]{'' if f is None or type(f) is type(p) else 'FACT'}")
    print(f"{k:7s}", ' | '.join(res))
