import sys, warnings, itertools, collections; warnings.simplefilter('ignore'); sys.path.insert(0, sys.argv[1])
from spacepackets.ccsds.spacepacket import *
from spacepackets.ccsds.time import CdsShortTimestamp
from spacepackets.ecss.tc import *
from spacepackets.ecss.tm import *
from spacepackets.ecss.pus_1_verification import *
from spacepackets.ecss.pus_17_test import Service17Tm
from spacepackets.ecss.fields import *
from spacepackets.ecss.req_id import RequestId
from spacepackets.cfdp import *
from spacepackets.cfdp.pdu.header import PduHeader, AbstractPduBase
from spacepackets.cfdp.pdu.file_directive import FileDirectivePduBase
from spacepackets.cfdp.tlv import *
from spacepackets.cfdp.defs import UnsupportedCfdpVersion
from spacepackets.cfdp.exceptions import *
from spacepackets.util import *
from spacepackets.cfdp.conf import PduConfig
from spacepackets.uslp import *
from spacepackets.uslp.header import *
from spacepackets.uslp.frame import *
from spacepackets.uslp.defs import *
OK=(ValueError, InvalidTcCrc16, InvalidTmCrc16, InvalidCrc, UnsupportedCfdpVersion, TlvTypeMissmatch, InvalidVerifParams,
    UslpInvalidFrameHeader, UslpInvalidRawPacketOrFrameLen, UslpInvalidConstructionRules, UslpFhpVhopFieldMissing, UslpTruncatedFrameNotAllowed, UslpVersionMissmatch, UslpTypeMissmatch)
tc=PusTc(17,1,apid=0x123,seq_count=77,app_data=b'\x01\x02\x03',source_id=0x4455)
tm=PusTm(17,2,b'\x40\x01\x02\x03\x04\x05\x06',b'\xaa\xbb',apid=0x123,seq_count=9,message_counter=3,destination_id=5)
tm0=PusTm(3,25,b'',b'',apid=1)
s1=create_step_failure_tm(1, tc, PacketFieldU16(300), FailureNotice(PacketFieldU8(7), b'xyz'), b'')
s1s=create_step_success_tm(1, tc, PacketFieldU8(3), b'\x40'+bytes(6))
s17=Service17Tm(1,2,b'\x40'+bytes(6))
fsr = FileStoreResponseTlv(FilestoreActionCode.RENAME_FILE_SNP, FilestoreResponseStatusCode.RENAME_SUCCESS, 'a', 'b', CfdpLv(b'm'))
fsq = FileStoreRequestTlv(FilestoreActionCode.APPEND_FILE_SNP, 'a', 'bc')
ph = PrimaryHeader(scid=0xABCD, src_dest=SourceOrDestField.DEST, vcid=0x2A, map_id=0xB, frame_len=0, bypass_seq_ctrl_flag=BypassSequenceControlFlag.EXPEDITED_QOS, prot_ctrl_cmd_flag=ProtocolCommandFlag.PROTOCOL_INFORMATION, op_ctrl_flag=True, vcf_count_len=3, vcf_count=0x010203)
tfdf = TransferFrameDataField(TfdzConstructionRules.VpNoSegmentation, UslpProtocolIdentifier.USER_DEFINED_OCTET_STREAM, b'\x01\x02\x03')
fr = TransferFrame(ph, tfdf, insert_zone=b'\xaa', op_ctrl_field=b'\x11\x22\x33\x44', fecf=b'\xfe\xcf'); fr.set_frame_len_in_header()
vprops = VarFrameProperties(True, True, 10, 1, 2)
ph2 = PrimaryHeader(scid=1, src_dest=SourceOrDestField.SOURCE, vcid=1, map_id=1, frame_len=0, bypass_seq_ctrl_flag=0, prot_ctrl_cmd_flag=0, op_ctrl_flag=False)
tfdf2 = TransferFrameDataField(TfdzConstructionRules.FpPacketSpanningMultipleFrames, UslpProtocolIdentifier.SPACE_PACKETS_ENCAPSULATION_PACKETS, b'\x01\x02\x03\x04', fhp_or_lvop=0)
fr2 = TransferFrame(ph2, tfdf2, fecf=b'\xfe\xcf'); fr2.set_frame_len_in_header()
fprops = FixedFrameProperties(fr2.len(), False, True, None, 2)
th = TruncatedPrimaryHeader(scid=5, src_dest=SourceOrDestField.DEST, vcid=3, map_id=2)
tfr = TransferFrame(th, TransferFrameDataField(TfdzConstructionRules.VpNoSegmentation, UslpProtocolIdentifier.USER_DEFINED_OCTET_STREAM, b'\x09\x08'))
tprops = VarFrameProperties(False, False, 4+3)
units = [
 ('SpacePacketHeader.unpack', SpacePacketHeader.unpack, bytes(tc.sp_header.pack()), True),
 ('get_apid', get_apid_from_raw_space_packet, bytes(tc.sp_header.pack()), True),
 ('PusTc.unpack', PusTc.unpack, bytes(tc.pack()), True),
 ('PusTcDataFieldHeader.unpack', PusTcDataFieldHeader.unpack, bytes(tc.pus_tc_sec_header.pack()), True),
 ('PusTm.unpack/7', lambda b: PusTm.unpack(b,7), bytes(tm.pack()), True),
 ('PusTm.unpack/0', lambda b: PusTm.unpack(b,0), bytes(tm0.pack()), True),
 ('PusTmSecondaryHeader.unpack/7', lambda b: PusTmSecondaryHeader.unpack(b,7), bytes(tm.pus_tm_sec_header.pack()), False),
 ('PusTm.service_from_bytes', PusTm.service_from_bytes, bytes(tm.pack()), False),
 ('Service1Tm.unpack fail', lambda b: Service1Tm.unpack(b, UnpackParams(0,2,1)), bytes(s1.pack()), True),
 ('Service1Tm.unpack succ', lambda b: Service1Tm.unpack(b, UnpackParams(7,1,1)), bytes(s1s.pack()), True),
 ('Service17Tm.unpack', lambda b: Service17Tm.unpack(b,7), bytes(s17.pack()), True),
 ('RequestId.unpack', RequestId.unpack, bytes(RequestId.from_pus_tc(tc).pack()), True),
 ('PacketFieldEnum.unpack/16', lambda b: PacketFieldEnum.unpack(b,16), bytes(PacketFieldU16(300).pack()), True),
 ('FailureNotice.unpack', lambda b: FailureNotice.unpack(b,2), bytes(FailureNotice(PacketFieldU16(7), b'ab').pack()), False),
 ('CdsShortTimestamp.unpack', CdsShortTimestamp.unpack, bytes(CdsShortTimestamp(100, 5000).pack()), True),
 ('PduHeader.unpack', PduHeader.unpack, bytes(PduHeader(PduType.FILE_DATA, SegmentMetadataFlag.PRESENT, 5, PduConfig(ByteFieldU16(1),ByteFieldU16(2),ByteFieldU32(3),TransmissionMode.ACKNOWLEDGED)).pack()), True),
 ('header_len_from_raw', AbstractPduBase.header_len_from_raw, bytes(PduHeader(PduType.FILE_DATA, SegmentMetadataFlag.PRESENT, 5, PduConfig.default()).pack()), False),
 ('FileDirectivePduBase.unpack', FileDirectivePduBase.unpack, bytes(FileDirectivePduBase(PduConfig.default(), DirectiveType.ACK_PDU, 0).pack()), True),
 ('CfdpLv.unpack', CfdpLv.unpack, bytes(CfdpLv(b'abc').pack()), True),
 ('CfdpTlv.unpack', CfdpTlv.unpack, bytes(CfdpTlv(TlvType.FLOW_LABEL, b'abc').pack()), True),
 ('EntityIdTlv.unpack', EntityIdTlv.unpack, bytes(EntityIdTlv(b'\x01\x02').pack()), True),
 ('FlowLabelTlv.unpack', FlowLabelTlv.unpack, bytes(FlowLabelTlv(b'xy').pack()), True),
 ('FaultHandlerOverrideTlv.unpack', FaultHandlerOverrideTlv.unpack, bytes(FaultHandlerOverrideTlv(ConditionCode.FILE_SIZE_ERROR, FaultHandlerCode.IGNORE_ERROR).pack()), True),
 ('FileStoreRequestTlv.unpack', FileStoreRequestTlv.unpack, bytes(fsq.pack()), True),
 ('FileStoreResponseTlv.unpack', FileStoreResponseTlv.unpack, bytes(fsr.pack()), True),
 ('MessageToUserTlv.unpack', MessageToUserTlv.unpack, bytes(MessageToUserTlv(b'hello').pack()), True),
 ('PrimaryHeader.unpack', PrimaryHeader.unpack, bytes(ph.pack()), True),
 ('TruncatedPrimaryHeader.unpack', TruncatedPrimaryHeader.unpack, bytes(th.pack()), True),
 ('determine_header_type', determine_header_type, bytes(th.pack()), False),
 ('TransferFrame.unpack var', lambda b: TransferFrame.unpack(b, FrameType.VARIABLE, vprops), bytes(fr.pack(frame_type=FrameType.VARIABLE)), True),
 ('TransferFrame.unpack fixed', lambda b: TransferFrame.unpack(b, FrameType.FIXED, fprops), bytes(fr2.pack(frame_type=FrameType.FIXED)), True),
 ('TransferFrame.unpack trunc', lambda b: TransferFrame.unpack(b, FrameType.VARIABLE, tprops), bytes(tfr.pack(truncated=True, frame_type=FrameType.VARIABLE)), False),
]
bad=collections.OrderedDict(); acc=[]; n=0
small=[bytes(x) for L in range(3) for x in itertools.product(range(256), repeat=L)]
def run(name, dec, b, tag):
    global n; n+=1
    try:
        return ('ok', dec(b))
    except OK as e: return ('doc', e)
    except Exception as e:
        bad.setdefault((name,type(e).__name__,tag),(b.hex(),repr(e))); return ('bad', e)
for name,dec,raw,selfdelim in units:
    try: dec(raw)
    except Exception as e: print('!! valid unit rejected', name, repr(e)); continue
    for b in small: run(name,dec,b,'small')
    for cut in range(len(raw)):
        r=run(name,dec,raw[:cut],'prefix')
        if r[0]=='ok' and selfdelim: acc.append((name,cut,len(raw)))
    for pos in range(min(len(raw),40)):
        for v in range(256):
            b=bytearray(raw); b[pos]=v; run(name,dec,bytes(b),'subst')
print('calls',n)
for k,v in bad.items(): print('UNDOC',k,v)
print('prefix accepted', acc)
