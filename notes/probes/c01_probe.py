import sys, warnings, itertools, collections; warnings.simplefilter('ignore'); sys.path.insert(0, sys.argv[1])
from spacepackets.ccsds.spacepacket import *
from spacepackets.util import *
from multiprocessing import Pool
BG=[0,0xFFFF,0x5555,0xAAAA]
def fields(w0,w1,w2): return (w0>>13, (w0>>12)&1, (w0>>11)&1, w0&0x7ff, w1>>14, w1&0x3fff, w2)
def one(w0,w1,w2):
    ver,typ,shf,apid,fl,cnt,dl=fields(w0,w1,w2)
    ref=w0.to_bytes(2,'big')+w1.to_bytes(2,'big')+w2.to_bytes(2,'big')
    h=SpacePacketHeader(PacketType(typ),apid,cnt,dl,bool(shf),SequenceFlags(fl),ver)
    if bytes(h.pack())!=ref: return ('pack',ref.hex())
    u=SpacePacketHeader.unpack(ref+b'\xab')
    if (u.ccsds_version,int(u.packet_type),int(u.sec_header_flag),u.apid,int(u.seq_flags),u.seq_count,u.data_len,u.packet_len,u.header_len)!=(ver,typ,shf,apid,fl,cnt,dl,dl+7,6): return ('unpack',ref.hex())
    if bytes(u.pack())!=ref or not (u==h): return ('repack',ref.hex())
    if h.packet_id.raw()!=(w0&0x1fff) or h.packet_seq_control.raw()!=w1: return ('raw',ref.hex())
    p=PacketId.from_raw(w0&0x1fff); q=PacketSeqCtrl.from_raw(w1)
    if (int(p.ptype),int(p.sec_header_flag),p.apid)!=(typ,shf,apid) or (int(q.seq_flags),q.seq_count)!=(fl,cnt): return ('from_raw',ref.hex())
    if get_space_packet_id_bytes(PacketType(typ),bool(shf),apid,ver)!=(ref[0],ref[1]) or get_apid_from_raw_space_packet(ref)!=apid or get_sp_packet_id_raw(PacketType(typ),bool(shf),apid)!=(w0&0x1fff) or get_sp_psc_raw(SequenceFlags(fl),cnt)!=w1 or get_total_space_packet_len_from_len_field(dl)!=dl+7: return ('helpers',ref.hex())
    return None
def job(word):
    bad=None;n=0
    for v in range(65536):
        for a in BG:
            for b in BG:
                w=[a,b]; w.insert(word,v); n+=1
                r=one(*w)
                if r and not bad: bad=r
    return word,n,bad
if __name__=='__main__':
    with Pool(3) as p:
        for r in p.map(job,[0,1,2]): print(r)
    for ctor in (lambda v: SpacePacketHeader(PacketType.TM,v,0,0), lambda v: PacketId(PacketType.TM,False,v), lambda v: get_sp_packet_id_raw(PacketType.TM,False,v)):
        for v in list(range(-4096,0))+list(range(2048,2048+4096))+[1<<k for k in range(11,70)]+[-(1<<k) for k in range(70)]:
            try: ctor(v); print('ACCEPTED apid',v); break
            except ValueError: pass
    for ctor in (lambda v: SpacePacketHeader(PacketType.TM,0,v,0), lambda v: PacketSeqCtrl(SequenceFlags.UNSEGMENTED,v), lambda v: get_sp_psc_raw(SequenceFlags.UNSEGMENTED,v)):
        for v in list(range(-4096,0))+list(range(16384,16384+4096))+[1<<k for k in range(14,70)]:
            try: ctor(v); print('ACCEPTED cnt',v); break
            except ValueError: pass
    for v in list(range(-4096,0))+list(range(65536,65536+4096))+[1<<k for k in range(16,70)]:
        try: SpacePacketHeader(PacketType.TM,0,0,v); print('ACCEPTED len',v); break
        except ValueError: pass
    print('range ok')
