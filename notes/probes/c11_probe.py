import sys, warnings, itertools, collections, copy; warnings.simplefilter('ignore'); sys.path.insert(0, sys.argv[1])
from spacepackets.cfdp import *
from spacepackets.cfdp.pdu import *
from spacepackets.cfdp.pdu.file_data import *
from spacepackets.cfdp.pdu.prompt import ResponseRequired
from spacepackets.cfdp.pdu.ack import TransactionStatus
from spacepackets.cfdp.tlv import *
from spacepackets.cfdp.conf import PduConfig
from spacepackets.util import *
from spacepackets.ecss.tc import PusTc
from spacepackets.ecss.tm import PusTm
def conf(crc, large, w=2):
    return PduConfig(source_entity_id=ByteFieldGenerator.from_int(w,1), dest_entity_id=ByteFieldGenerator.from_int(w,2), transaction_seq_num=ByteFieldGenerator.from_int(w,3), trans_mode=TransmissionMode.ACKNOWLEDGED, crc_flag=CrcFlag.WITH_CRC if crc else CrcFlag.NO_CRC, file_flag=LargeFileFlag.LARGE if large else LargeFileFlag.NORMAL)
fsr = lambda: FileStoreResponseTlv(FilestoreActionCode.RENAME_FILE_SNP, FilestoreResponseStatusCode.RENAME_SUCCESS, 'a', 'b')
fsr2 = lambda: FileStoreResponseTlv(FilestoreActionCode.CREATE_FILE_SNM, FilestoreResponseStatusCode.CREATE_SUCCESS, 'abc')
E1=lambda: EntityIdTlv(b'\x05'); E4=lambda: EntityIdTlv(b'\x05\x06\x07\x08')
machines = {
 'eof': (lambda c: EofPdu(c, b'\x01\x02\x03\x04', 77, None, ConditionCode.FILE_SIZE_ERROR),
         [('fault_location', None), ('fault_location', E1), ('fault_location', E4)]),
 'fin': (lambda c: FinishedPdu(c, FinishedParams(ConditionCode.FILE_SIZE_ERROR, DeliveryCode.DATA_INCOMPLETE, FileStatus.FILE_RETAINED)),
         [('fault_location', None), ('fault_location', E1), ('file_store_responses', lambda: None), ('file_store_responses', lambda: []), ('file_store_responses', lambda: [fsr()]), ('file_store_responses', lambda: [fsr(), fsr2()])]),
 'meta': (lambda c: MetadataPdu(c, MetadataParams(True, ChecksumType.CRC_32, 5, 'a','bc')),
         [('options', lambda: None), ('options', lambda: [FlowLabelTlv(b'xy')]), ('options', lambda: [FlowLabelTlv(b'xy'), MessageToUserTlv(b'hello')]), ('source_file_name', lambda: None), ('source_file_name', lambda: 'ä'), ('dest_file_name', lambda: 'x'*255), ('dest_file_name', lambda: None)]),
 'nak': (lambda c: NakPdu(c, 1, 10, [(1,2)]),
         [('segment_requests', lambda: None), ('segment_requests', lambda: []), ('segment_requests', lambda: [(1,2),(3,4),(5,6)]), ('file_flag', lambda: LargeFileFlag.LARGE), ('file_flag', lambda: LargeFileFlag.NORMAL)]),
 'fd': (lambda c: FileDataPdu(c, FileDataParams(b'hello', 3)),
         [('file_data', lambda: b''), ('file_data', lambda: b'x'), ('file_data', lambda: bytes(300)), ('segment_metadata', lambda: None), ('segment_metadata', lambda: SegmentMetadata(RecordContinuationState.START_AND_END, b'')), ('segment_metadata', lambda: SegmentMetadata(RecordContinuationState.NO_START_NO_END, bytes(63)))]),
 'ka': (lambda c: KeepAlivePdu(c, 0x01020304),
         [('file_flag', lambda: LargeFileFlag.LARGE), ('file_flag', lambda: LargeFileFlag.NORMAL)]),
}
def val(v): 
    return v() if callable(v) else v
def hdrlen(raw): return 4 + 2*(((raw[3]>>4)&7)+1) + ((raw[3]&7)+1)
viol=collections.OrderedDict(); n=0
for name,(ctor,evs) in machines.items():
    for crc in (0,1):
        for large in (0,1):
            for start in ('ctor','decoded','packed'):
                for depth in range(0,4):
                    for seq in itertools.product(range(len(evs)), repeat=depth):
                        c=conf(crc,large); snap=copy.deepcopy(c)
                        try:
                            o=ctor(c)
                            if start=='decoded': o=type(o).unpack(bytes(o.pack()))
                            if start=='packed': o.pack()
                            for i in seq:
                                attr,v=evs[i]; setattr(o, attr, val(v))
                            raw=bytes(o.pack()); n+=1
                        except Exception as e:
                            viol.setdefault((name,'exc',type(e).__name__,crc,large,start), (seq,repr(e))); continue
                        if c!=snap: viol.setdefault((name,'conf-mutated'),(seq,))
                        if len(raw)!=o.packet_len: viol.setdefault((name,'packet_len',crc,large,start), (seq,len(raw),o.packet_len))
                        if (raw[1]<<8|raw[2]) != len(raw)-hdrlen(raw): viol.setdefault((name,'len-field',crc,large,start), (seq,))
                        if bytes(o.pack())!=raw: viol.setdefault((name,'repack'),(seq,))
                        try:
                            u=type(o).unpack(raw)
                            if not (u==o) or bytes(u.pack())!=raw: viol.setdefault((name,'roundtrip-after-history',crc,large,start),(seq,))
                        except Exception as e: viol.setdefault((name,'decode-after-history',type(e).__name__,crc,large,start),(seq,repr(e)))
# TC/TM
for start in ('ctor','decoded'):
  for seq in itertools.product([b'',b'a',b'abcd'], repeat=2):
    tc=PusTc(17,1,apid=5, app_data=b'zz')
    if start=='decoded': tc=PusTc.unpack(bytes(tc.pack()))
    for d in seq: tc.app_data=d
    raw=bytes(tc.pack()); n+=1
    if len(raw)!=tc.packet_len or (raw[4]<<8|raw[5])!=len(raw)-7: viol.setdefault(('tc','len',start),(seq,len(raw),tc.packet_len))
    tm=PusTm(17,2,b'\x00'*7, b'zz', apid=5)
    if start=='decoded': tm=PusTm.unpack(bytes(tm.pack()),7)
    for d in seq: tm.tm_data=d
    raw=bytes(tm.pack())
    if len(raw)!=tm.packet_len or (raw[4]<<8|raw[5])!=len(raw)-7: viol.setdefault(('tm','len',start),(seq,len(raw),tm.packet_len))
print('histories',n)
for k,v in viol.items(): print('VIOL',k,v)
