import sys, warnings, itertools, collections; warnings.simplefilter('ignore'); sys.path.insert(0, sys.argv[1])
from spacepackets.cfdp import *
from spacepackets.cfdp.pdu import *
from spacepackets.cfdp.pdu.file_data import *
from spacepackets.cfdp.pdu.prompt import ResponseRequired
from spacepackets.cfdp.pdu.ack import TransactionStatus
from spacepackets.cfdp.tlv import *
from spacepackets.cfdp.defs import *
from spacepackets.cfdp.conf import PduConfig
from spacepackets.util import *
V=collections.OrderedDict()
def viol(k,w): V.setdefault(k,w)
def crc16(data):
    crc=0xFFFF
    for b in data:
        crc^=b<<8
        for _ in range(8):
            crc=((crc<<1)^0x1021)&0xFFFF if crc&0x8000 else (crc<<1)&0xFFFF
    return crc
assert crc16(b'123456789')==0x29B1
def ref_pdu(ptype, direction, mode, crc, large, segctrl, segmeta, iw, sw, src, seq, dst, body):
    dl=len(body)+(2 if crc else 0)
    raw=bytes([0b00100000|ptype<<4|direction<<3|mode<<2|crc<<1|large, dl>>8, dl&0xff, segctrl<<7|(iw-1)<<4|segmeta<<3|(sw-1)])+src.to_bytes(iw,'big')+seq.to_bytes(sw,'big')+dst.to_bytes(iw,'big')+body
    if crc: raw+=crc16(raw).to_bytes(2,'big')
    return raw
def fss(v,large): return v.to_bytes(8 if large else 4,'big')
def lv(b): return bytes([len(b)])+b
def tlv(t,b): return bytes([t,len(b)])+b
n=0
sizes32=[0,1,255,256,0x01020304,0x80000000,0xFFFFFFFF]; sizes64=sizes32+[1<<32,0x0102030405060708,(1<<64)-1]
for crc,large,iw,sw,mode in itertools.product((0,1),(0,1),(1,2,4,8),(1,2,4,8),(0,1)):
    src=int.from_bytes(bytes(range(0x11,0x11+iw)),'big'); dst=int.from_bytes(bytes(range(0xA1,0xA1+iw)),'big'); seq=int.from_bytes(bytes(range(0x71,0x71+sw)),'big')
    def conf(): return PduConfig(ByteFieldGenerator.from_int(iw,src),ByteFieldGenerator.from_int(iw,dst),ByteFieldGenerator.from_int(sw,seq),TransmissionMode(mode),LargeFileFlag(large),CrcFlag(crc))
    H=lambda ptype,direction,body,segmeta=0: ref_pdu(ptype,direction,mode,crc,large,0,segmeta,iw,sw,src,seq,dst,body)
    sizes=sizes64 if large else sizes32
    cases=[]
    for cc in [c for c in ConditionCode if c>=0]:
        for size in (sizes if cc==ConditionCode.FILE_SIZE_ERROR else sizes[:2]):
            for fl in (None,b'\x07',b'\x01\x02\x03\x04'):
                if fl is not None and cc==ConditionCode.NO_ERROR: continue
                cases.append(('eof',lambda cc=cc,size=size,fl=fl: EofPdu(conf(),b'\xde\xad\xbe\xef',size,EntityIdTlv(fl) if fl else None,cc),
                    H(0,0,bytes([4,cc<<4])+b'\xde\xad\xbe\xef'+fss(size,large)+(tlv(6,fl) if fl else b'')),
                    lambda u,cc=cc,size=size,fl=fl: (int(u.condition_code),bytes(u.file_checksum),u.file_size,None if u.fault_location is None else bytes(u.fault_location.value))==(int(cc),b'\xde\xad\xbe\xef',size,fl)))
        for dc in DeliveryCode:
            for fs in FileStatus:
                for nresp in (0,1,2):
                    for fl in (None,b'\x01\x02'):
                        if fl is not None and cc in (ConditionCode.NO_ERROR, ConditionCode.UNSUPPORTED_CHECKSUM_TYPE): continue
                        resps=[FileStoreResponseTlv(FilestoreActionCode.RENAME_FILE_SNP, FilestoreResponseStatusCode.RENAME_NOT_PERFORMED,'a','bc',CfdpLv(b'm')), FileStoreResponseTlv(FilestoreActionCode.CREATE_DIR_SNN, FilestoreResponseStatusCode.CREATE_DIR_SUCCESS,'d')][:nresp]
                        rraw=[tlv(1,bytes([2<<4|0xf])+lv(b'a')+lv(b'bc')+lv(b'm')), tlv(1,bytes([5<<4|0])+lv(b'd')+lv(b''))][:nresp]
                        cases.append(('fin',lambda cc=cc,dc=dc,fs=fs,resps=resps,fl=fl: FinishedPdu(conf(),FinishedParams(cc,dc,fs,list(resps),EntityIdTlv(fl) if fl else None)),
                            H(0,1,bytes([5,cc<<4|dc<<2|fs])+b''.join(rraw)+(tlv(6,fl) if fl else b'')),
                            lambda u,cc=cc,dc=dc,fs=fs,nresp=nresp,fl=fl: (int(u.condition_code),int(u.delivery_code),int(u.file_status),len(u.file_store_responses),None if u.fault_location is None else bytes(u.fault_location.value))==(int(cc),int(dc),int(fs),nresp,fl)))
        for acked,sub,direction in ((DirectiveType.EOF_PDU,0,1),(DirectiveType.FINISHED_PDU,1,0)):
            for ts in TransactionStatus:
                cases.append(('ack',lambda acked=acked,cc=cc,ts=ts: AckPdu(conf(),acked,cc,ts), H(0,direction,bytes([6,acked<<4|sub,cc<<4|ts])),
                    lambda u,acked=acked,cc=cc,ts=ts,sub=sub: (int(u.directive_code_of_acked_pdu),int(u.directive_subtype_code),int(u.condition_code_of_acked_pdu),int(u.transaction_status))==(int(acked),sub,int(cc),int(ts))))
    for closure in (False,True):
        for cs in ChecksumType:
            for size in sizes[:3]+sizes[-1:]:
                for sn,dn in ((None,None),('a','bc'),('ä/名','x'*255)):
                    for opts,oraw in ((None,b''),([FlowLabelTlv(b'xy')],tlv(5,b'xy')),([MessageToUserTlv(b'hello'),FileStoreRequestTlv(FilestoreActionCode.DELETE_FILE_SNN,'f'),FaultHandlerOverrideTlv(ConditionCode.FILE_SIZE_ERROR,FaultHandlerCode.ABANDON_TRANSACTION)], tlv(2,b'hello')+tlv(0,bytes([1<<4])+lv(b'f'))+tlv(4,bytes([6<<4|4])))):
                        cases.append(('meta',lambda closure=closure,cs=cs,size=size,sn=sn,dn=dn,opts=opts: MetadataPdu(conf(),MetadataParams(closure,cs,size,sn,dn),opts),
                            H(0,0,bytes([7,closure<<6|cs])+fss(size,large)+lv((sn or '').encode())+lv((dn or '').encode())+oraw),
                            lambda u,closure=closure,cs=cs,size=size,sn=sn,dn=dn,opts=opts: (bool(u.closure_requested),int(u.checksum_type),u.file_size,u.source_file_name,u.dest_file_name,len(u.options or []))==(closure,int(cs),size,sn,dn,len(opts or []))))
    for s0,s1 in ((0,0),(1,sizes[-1]),(sizes[-1],sizes[-2])):
        for segs in ([],[(0,0)],[(1,2),(sizes[-1],sizes[-2]),(0x0102,0x0304)]):
            cases.append(('nak',lambda s0=s0,s1=s1,segs=segs: NakPdu(conf(),s0,s1,list(segs)), H(0,1,bytes([8])+fss(s0,large)+fss(s1,large)+b''.join(fss(a,large)+fss(b,large) for a,b in segs)),
                lambda u,s0=s0,s1=s1,segs=segs: (u.start_of_scope,u.end_of_scope,list(u.segment_requests))==(s0,s1,segs)))
    for rr in ResponseRequired:
        cases.append(('prompt',lambda rr=rr: PromptPdu(conf(),rr), H(0,0,bytes([9,rr<<7])), lambda u,rr=rr: int(u.response_required)==int(rr)))
    for pr in sizes:
        cases.append(('ka',lambda pr=pr: KeepAlivePdu(conf(),pr), H(0,1,bytes([0x0c])+fss(pr,large)), lambda u,pr=pr: u.progress==pr))
    for off in sizes:
        for data in (b'',b'\x00',b'hello',bytes(range(256))*2):
            for md in (None,(0,b''),(3,b'\x99'),(2,bytes(63))):
                body=(bytes([md[0]<<6|len(md[1])])+md[1] if md else b'')+fss(off,large)+data
                cases.append(('fd',lambda off=off,data=data,md=md: FileDataPdu(conf(),FileDataParams(data,off,SegmentMetadata(RecordContinuationState(md[0]),md[1]) if md else None)), H(1,0,body,1 if md else 0),
                    lambda u,off=off,data=data,md=md: (u.offset,bytes(u.file_data),None if u.segment_metadata is None else (int(u.segment_metadata.record_cont_state),bytes(u.segment_metadata.metadata)))==(off,data,md)))
    for kind,build,ref,obs in cases:
        n+=1
        key=(kind,crc,large)
        try:
            p=build(); raw=bytes(p.pack())
        except Exception as e: viol(key+('build/pack-exc',type(e).__name__),(repr(e),iw,sw)); continue
        if raw!=ref: viol(key+('pack!=ref',),(raw.hex(),ref.hex(),iw,sw)); continue
        if p.packet_len!=len(ref): viol(key+('packet_len',),(p.packet_len,len(ref)))
        try:
            u=type(p).unpack(ref); f=PduFactory.from_raw(ref)
        except Exception as e: viol(key+('unpack-exc',type(e).__name__),(ref.hex(),repr(e))); continue
        if type(f) is not type(p): viol(key+('factory-type',),(type(f).__name__,))
        if not obs(u): viol(key+('observables',),(ref.hex(),))
        if not (u==p and p==u and f==p): viol(key+('eq',),(ref.hex(),))
        if bytes(u.pack())!=ref or u.packet_len!=len(ref): viol(key+('repack',),(ref.hex(),))
    # fit clause
    if not large:
        for mkr in (lambda: EofPdu(conf(),b'\x00'*4,1<<32), lambda: KeepAlivePdu(conf(),1<<32), lambda: NakPdu(conf(),1<<32,0), lambda: NakPdu(conf(),0,0,[(0,1<<32)]), lambda: MetadataPdu(conf(),MetadataParams(False,ChecksumType.MODULAR,1<<32,'a','b')), lambda: FileDataPdu(conf(),FileDataParams(b'x',1<<32))):
            try:
                r=mkr().pack(); viol(('fit','packed'),(bytes(r).hex(),))
            except Exception: pass
print('cases',n)
for k,v in V.items(): print('VIOL',k,str(v)[:400])
