import sys, warnings, itertools, collections; warnings.simplefilter('ignore'); sys.path.insert(0, sys.argv[1])
from spacepackets.uslp import *
from spacepackets.uslp.header import *
from spacepackets.uslp.frame import *
from spacepackets.uslp.defs import *
V=collections.OrderedDict()
def viol(k,w): V.setdefault(k,w)
USLPERR=(UslpInvalidFrameHeader, UslpInvalidRawPacketOrFrameLen, UslpInvalidConstructionRules, UslpFhpVhopFieldMissing, UslpTruncatedFrameNotAllowed, UslpVersionMissmatch, UslpTypeMissmatch)
def bits(*f):
    acc=0;n=0
    for v,w in f:
        assert 0<=v<(1<<w),(v,w); acc=(acc<<w)|v; n+=w
    assert n%8==0; return acc.to_bytes(n//8,'big')
def ref_hdr(scid,sd,vcid,mapid,flen,byp,pcc,ocf,vl,vc):
    return bits((0b1100,4),(scid,16),(sd,1),(vcid,6),(mapid,4),(0,1),(flen,16),(byp,1),(pcc,1),(0,2),(ocf,1),(vl,3)) + (vc.to_bytes(vl,'big') if vl else b'')
def ref_trunc(scid,sd,vcid,mapid): return bits((0b1100,4),(scid,16),(sd,1),(vcid,6),(mapid,4),(1,1))
n=0
def one(scid,sd,vcid,mapid,flen,byp,pcc,ocf,vl,vc):
    global n; n+=1
    h=PrimaryHeader(scid,SourceOrDestField(sd),vcid,mapid,flen,BypassSequenceControlFlag(byp),ProtocolCommandFlag(pcc),bool(ocf),vl,vc if vl else None)
    ref=ref_hdr(scid,sd,vcid,mapid,flen,byp,pcc,ocf,vl,vc)
    if bytes(h.pack())!=ref: viol(('hdr-pack',vl),(scid,sd,vcid,mapid,flen,byp,pcc,ocf,vl,vc,bytes(h.pack()).hex(),ref.hex())); return
    if h.len()!=len(ref): viol(('hdr-len',),0)
    u=PrimaryHeader.unpack(ref+b'\xee\xee')
    got=(u.scid,int(u.src_dest),u.vcid,u.map_id,u.frame_len,int(u.bypass_seq_ctrl_flag),int(u.prot_ctrl_cmd_flag),int(u.op_ctrl_flag),u.vcf_count_len,(u.vcf_count if vl else 0))
    if got!=(scid,sd,vcid,mapid,flen,byp,pcc,ocf,vl,vc if vl else 0): viol(('hdr-unpack',vl),(got,))
    if u.len()!=len(ref): viol(('hdr-unpack-len',),0)
for scid in range(65536): one(scid,scid&1,(scid*7)&63,(scid*3)&15,(~scid)&0xffff,scid>>1&1,scid>>2&1,scid>>3&1,0,0)
for flen in range(65536): one(0xA5A5,1,0x2A,5,flen,1,0,1,2,flen)
for vcid in range(64):
    for mapid in range(16):
        for sd in (0,1): one(0xFFFF,sd,vcid,mapid,0,0,0,0,0,0); one(0,sd,vcid,mapid,0xffff,1,1,1,1,0xff)
for vl in range(8):
    vals={0,1,(1<<(8*vl))-1,(1<<(8*vl))-2,int.from_bytes(bytes(range(1,vl+1)),'big')} if vl else {0}
    for k in range(8*vl): vals.add(1<<k); vals.add(((1<<(8*vl))-1)^(1<<k))
    for vc in vals:
        for byp,pcc,ocf in itertools.product((0,1),repeat=3): one(0x1234,0,0x15,0xA,0x0102,byp,pcc,ocf,vl,vc)
for scid,vcid,mapid in ((65536,0,0),(0,64,0),(0,0,16),(70000,0,0)):
    for f in (lambda: PrimaryHeader(scid,SourceOrDestField.DEST,vcid,mapid,0,0,0,False).pack(), lambda: TruncatedPrimaryHeader(scid,SourceOrDestField.DEST,vcid,mapid).pack()):
        try: f(); viol(('range-accepted',),(scid,vcid,mapid))
        except ValueError: pass
        except Exception as e: viol(('range-wrong-exc',type(e).__name__),(scid,vcid,mapid))
for scid in (0,1,0x8000,0xffff,0xA5A5):
  for vcid in range(64):
    for mapid in range(16):
      for sd in (0,1):
        t=TruncatedPrimaryHeader(scid,SourceOrDestField(sd),vcid,mapid); ref=ref_trunc(scid,sd,vcid,mapid); n+=1
        if bytes(t.pack())!=ref or t.len()!=4: viol(('trunc-pack',),(scid,sd,vcid,mapid))
        u=TruncatedPrimaryHeader.unpack(ref+b'\x01')
        if (u.scid,int(u.src_dest),u.vcid,u.map_id)!=(scid,sd,vcid,mapid): viol(('trunc-unpack',),(scid,sd,vcid,mapid))
print('headers',n)
# frames
FP=(0,1,2); nf=0
for rule in range(8):
  for upid in (0,1,4,31,0x15):
    for tl in (0,1,2,3,16,255):
      for iz in (None,b'\xa1',b'\xa1\xa2\xa3\xa4'):
        for ocf in (None,b'\x11\x22\x33\x44'):
          for fecf in (None,b'\xf1\xf2',b'\xf1\xf2\xf3\xf4'):
            tfdz=bytes((i*7+3)&0xff for i in range(tl))
            fixed = rule in FP
            ptr = 0x0102 if fixed else None
            hdr=PrimaryHeader(0xABCD,SourceOrDestField.DEST,0x2A,0xB,0,BypassSequenceControlFlag.EXPEDITED_QOS,ProtocolCommandFlag.USER_DATA,ocf is not None,2,0x0102)
            tf=TransferFrameDataField(TfdzConstructionRules(rule), upid, tfdz, ptr)
            fr=TransferFrame(hdr,tf,iz,ocf,fecf); fr.set_frame_len_in_header()
            ftype=FrameType.FIXED if fixed else FrameType.VARIABLE
            try: raw=bytes(fr.pack(frame_type=ftype))
            except Exception as e: viol(('frame-pack-exc',type(e).__name__,rule),(repr(e),)); continue
            nf+=1
            body=(iz or b'')+bytes([rule<<5|upid])+(ptr.to_bytes(2,'big') if fixed else b'')+tfdz+(ocf or b'')+(fecf or b'')
            total=9+len(body)
            ref=ref_hdr(0xABCD,1,0x2A,0xB,total-1,1,0,int(ocf is not None),2,0x0102)+body
            if raw!=ref: viol(('frame-pack',rule),(raw.hex(),ref.hex())); continue
            if fr.len()!=len(raw): viol(('frame-len',),(fr.len(),len(raw)))
            if fixed: props=FixedFrameProperties(len(raw), iz is not None, fecf is not None, len(iz) if iz else None, len(fecf) if fecf else None)
            else: props=VarFrameProperties(iz is not None, fecf is not None, 12, len(iz) if iz else None, len(fecf) if fecf else None)
            try:
                u=TransferFrame.unpack(raw, ftype, props)
                ok=(bytes(u.tfdf.tfdz)==tfdz and int(u.tfdf.tfdz_contr_rules)==rule and int(u.tfdf.uslp_ident)==upid and (u.tfdf.fhp_or_lvop==ptr) and (bytes(u.insert_zone) if u.insert_zone is not None else None)==iz and (bytes(u.op_ctrl_field) if u.op_ctrl_field is not None else None)==ocf and (bytes(u.fecf) if u.fecf is not None else None)==fecf and bytes(u.header.pack())==ref[:9])
                if not ok: viol(('frame-unpack-mismatch',rule,tl),(raw.hex(),))
            except Exception as e: viol(('frame-unpack-exc',type(e).__name__,rule,tl,iz is not None,ocf is not None,fecf is not None),(raw.hex(),repr(e)))
            # mismatching
            other=FrameType.VARIABLE if fixed else FrameType.FIXED
            oprops=VarFrameProperties(iz is not None, fecf is not None, 12, len(iz) if iz else None, len(fecf) if fecf else None) if fixed else FixedFrameProperties(len(raw), iz is not None, fecf is not None, len(iz) if iz else None, len(fecf) if fecf else None)
            try:
                TransferFrame.unpack(raw, other, oprops); viol(('mismatch-accepted','type-flip',rule),(raw.hex(),))
            except USLPERR+(ValueError,): pass
            except Exception as e: viol(('mismatch-wrong-exc',type(e).__name__,'type-flip',rule),(raw.hex(),))
            if fixed:
                for dl in (-1,1):
                    try: TransferFrame.unpack(raw, ftype, FixedFrameProperties(len(raw)+dl, iz is not None, fecf is not None, len(iz) if iz else None, len(fecf) if fecf else None)); viol(('mismatch-accepted','fixedlen',dl),(raw.hex(),))
                    except USLPERR+(ValueError,): pass
                    except Exception as e: viol(('mismatch-wrong-exc',type(e).__name__,'fixedlen'),(raw.hex(),))
print('frames',nf)
for k,v in V.items(): print('VIOL',k,str(v)[:300])
