import sys, warnings, itertools, collections, struct; warnings.simplefilter('ignore'); sys.path.insert(0, sys.argv[1])
from spacepackets.cfdp import *
from spacepackets.cfdp.pdu import *
from spacepackets.cfdp.pdu.header import PduHeader, AbstractPduBase
from spacepackets.cfdp.pdu.file_data import *
from spacepackets.cfdp.pdu.prompt import ResponseRequired
from spacepackets.cfdp.pdu.ack import TransactionStatus
from spacepackets.cfdp.tlv import *
from spacepackets.cfdp.tlv.msg_to_user import *
from spacepackets.cfdp.defs import *
from spacepackets.cfdp.exceptions import *
from spacepackets.cfdp.conf import PduConfig
from spacepackets.util import *
V=collections.OrderedDict()
def viol(k,w): V.setdefault(k,w)
# ---- C05 header
n=0
for t,d,m,c,l,sc,sm in itertools.product((0,1),repeat=7):
  for iw in (1,2,4,8):
    for sw in (1,2,4,8):
      for dl in (0,1,255,256,65535,0x5555):
        src=int.from_bytes(bytes(range(0x11,0x11+iw)),'big'); dst=int.from_bytes(bytes(range(0xA1,0xA1+iw)),'big'); seq=int.from_bytes(bytes(range(0x71,0x71+sw)),'big')
        cf=PduConfig(ByteFieldGenerator.from_int(iw,src),ByteFieldGenerator.from_int(iw,dst),ByteFieldGenerator.from_int(sw,seq),TransmissionMode(m),LargeFileFlag(l),CrcFlag(c),Direction(d),SegmentationControl(sc))
        h=PduHeader(PduType(t),SegmentMetadataFlag(sm),dl,cf)
        ref=bytes([0b00100000|t<<4|d<<3|m<<2|c<<1|l, dl>>8, dl&0xff, sc<<7|(iw-1)<<4|sm<<3|(sw-1)])+src.to_bytes(iw,'big')+seq.to_bytes(sw,'big')+dst.to_bytes(iw,'big')
        n+=1
        if bytes(h.pack())!=ref: viol(('C05','pack'),(t,d,m,c,l,sc,sm,iw,sw,dl)); continue
        u=PduHeader.unpack(ref+b'\xee'*3)
        got=(int(u.pdu_type),int(u.direction),int(u.transmission_mode),int(u.crc_flag),int(u.file_flag),int(u.seg_ctrl),int(u.segment_metadata_flag),u.source_entity_id.byte_len,u.transaction_seq_num.byte_len,u.pdu_data_field_len,u.source_entity_id.value,u.dest_entity_id.value,u.transaction_seq_num.value,u.header_len,u.packet_len)
        exp=(t,d,m,c,l,sc,sm,iw,sw,dl,src,dst,seq,len(ref),len(ref)+dl)
        if got!=exp: viol(('C05','unpack'),(exp,got))
        if AbstractPduBase.header_len_from_raw(ref)!=len(ref) or cf.header_len()!=len(ref): viol(('C05','hlen'),exp)
print('C05 headers',n)
# ---- C08 type safety
mk={TlvType.FILESTORE_REQUEST: FileStoreRequestTlv(FilestoreActionCode.APPEND_FILE_SNP,'a','b'), TlvType.FILESTORE_RESPONSE: FileStoreResponseTlv(FilestoreActionCode.RENAME_FILE_SNP, FilestoreResponseStatusCode.RENAME_SUCCESS,'a','b'),
    TlvType.MESSAGE_TO_USER: MessageToUserTlv(b'hi'), TlvType.FAULT_HANDLER: FaultHandlerOverrideTlv(ConditionCode.FILE_SIZE_ERROR, FaultHandlerCode.IGNORE_ERROR), TlvType.FLOW_LABEL: FlowLabelTlv(b'xy'), TlvType.ENTITY_ID: EntityIdTlv(b'\x01\x02')}
cls={TlvType.FILESTORE_REQUEST:(FileStoreRequestTlv,'to_fs_request'),TlvType.FILESTORE_RESPONSE:(FileStoreResponseTlv,'to_fs_response'),TlvType.MESSAGE_TO_USER:(MessageToUserTlv,'to_msg_to_user'),TlvType.FAULT_HANDLER:(FaultHandlerOverrideTlv,'to_fault_handler_override'),TlvType.FLOW_LABEL:(FlowLabelTlv,'to_flow_label'),TlvType.ENTITY_ID:(EntityIdTlv,'to_entity_id')}
for T,obj in mk.items():
    raw=bytes(obj.pack()); gen=CfdpTlv.unpack(raw)
    if obj.packet_len!=len(raw): viol(('C08','packet_len',T.name),(obj.packet_len,len(raw)))
    for C,(k,acc) in cls.items():
        for what,f in (('unpack',lambda: k.unpack(raw)),('from_tlv',lambda: k.from_tlv(gen)),('holder-generic',lambda: getattr(TlvHolder(gen),acc)()),('holder-concrete',lambda: getattr(TlvHolder(obj),acc)())):
            try:
                r=f()
                if C!=T: viol(('C08','wrong-kind-accepted',k.__name__,what,T.name),repr(r))
                elif bytes(r.pack())!=raw: viol(('C08','roundtrip',k.__name__,what),0)
            except (TlvTypeMissmatch,TypeError) as e:
                if C==T: viol(('C08','own-kind-refused',k.__name__,what),repr(e))
            except Exception as e:
                viol(('C08','other-exc',k.__name__,what,T.name,type(e).__name__),repr(e))
# ---- C18
def chk(name, msg, getter, expect, eq=lambda a,b:a==b):
    raw=bytes(msg.pack()); m=MessageToUserTlv.unpack(raw)
    if not m.is_reserved_cfdp_message(): viol(('C18','not-reserved',name),raw.hex()); return
    r=m.to_reserved_msg_tlv(); got=getattr(r,getter)()
    if not eq(got,expect): viol(('C18','params',name),(got,expect))
for w in (1,2,4,8):
    for sn,dn in (('',''),('a','b'),('src/ä','d'*100)):
        did=ByteFieldGenerator.from_int(w,(1<<(8*w))-2)
        p=ProxyPutRequestParams(did, CfdpLv.from_str(sn), CfdpLv.from_str(dn))
        chk(f'putreq{w}',ProxyPutRequest(p),'get_proxy_put_request_params',p, lambda a,b: a is not None and a.dest_entity_id==b.dest_entity_id and a.dest_entity_id.byte_len==b.dest_entity_id.byte_len and a.source_file_name==b.source_file_name and a.dest_file_name==b.dest_file_name)
    for sw in (1,2,4,8):
        tid=TransactionId(ByteFieldGenerator.from_int(w,(1<<(8*w))-2),ByteFieldGenerator.from_int(sw,(1<<(8*sw))-3))
        chk(f'otid{w}{sw}',OriginatingTransactionId(tid),'get_originating_transaction_id',tid, lambda a,b: a is not None and a==b and a.source_id.byte_len==b.source_id.byte_len and a.seq_num.byte_len==b.seq_num.byte_len)
for cc in ConditionCode:
    if cc<0: continue
    for dc in DeliveryCode:
        for fs in FileStatus:
            p=ProxyPutResponseParams(cc,dc,fs); chk('putresp',ProxyPutResponse(p),'get_proxy_put_response_params',p)
for b in (False,True):
    chk('closure',ProxyClosureRequest(b),'get_proxy_closure_requested',b)
    for a in (False,True):
        chk('listopt',DirectoryListingParameters(DirListingOptions(b,a)),'get_dir_listing_options',DirListingOptions(b,a))
    dp=DirectoryParams.from_strs('/tmp/ä','list.txt')
    chk('listresp',DirectoryListingResponse(b,dp),'get_dir_listing_response_params',(b,dp))
    chk('listreq',DirectoryListingRequest(dp),'get_dir_listing_request_params',dp)
for tmode in TransmissionMode: chk('tmode',ProxyTransmissionMode(tmode),'get_proxy_transmission_mode',tmode)
m=MessageToUserTlv.unpack(bytes(ProxyCancelRequest().pack()))
if not (m.is_reserved_cfdp_message() and m.to_reserved_msg_tlv().get_cfdp_proxy_message_type()==ProxyMessageType.PUT_CANCEL): viol(('C18','cancel'),0)
cnt=0
for L in range(0,3):
    for x in itertools.product(range(256),repeat=L):
        for pre in (b'', b'cfd', b'cfdp', b'\xffcfdp', b'\xff\xfe\xfd\xfc'):
            msg=pre+bytes(x); cnt+=1
            if msg[:4]==b'cfdp' and len(msg)>=5: continue
            try:
                if MessageToUserTlv(msg).is_reserved_cfdp_message() or MessageToUserTlv(msg).to_reserved_msg_tlv() is not None: viol(('C18','false-positive'),msg.hex())
            except Exception as e: viol(('C18','raises',type(e).__name__),msg.hex())
print('C18 nonreserved',cnt)
# ---- C20
for w in (0,1,2):
    for v in range(0,(1<<(8*w))):
        f=UnsignedByteField(v,w)
        if bytes(f.as_bytes)!=v.to_bytes(w,'big') or int(f)!=v or len(f)!=w: viol(('C20','views',w),v)
        if w:
            g=ByteFieldGenerator.from_bytes(w, v.to_bytes(w,'big')+b'\xee'); h=UnsignedByteField.from_bytes(v.to_bytes(w,'big'))
            if not(g==f and h==f and hash(g)==hash(f) and f.hex_str==f"{v:#0{2+2*w}x}"): viol(('C20','from_bytes',w),v)
for w in (1,2,4,8):
    for v in (-1,-2,1<<(8*w),(1<<(8*w))+1):
        try: UnsignedByteField(v,w); viol(('C20','accepted',w),v)
        except ValueError: pass
        except Exception as e: viol(('C20','wrong-exc',w,type(e).__name__),v)
print('done')
for k,v in V.items(): print('VIOL',k,v)
